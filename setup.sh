#!/bin/sh
# Offline setup: build the native replay tool against /repo once so the first check does not pay for it.
set -e
cd "$(dirname "$0")"
mkdir -p .work
cp /repo/Cargo.lock replay/Cargo.lock
CARGO_NET_OFFLINE=true CARGO_TARGET_DIR="$PWD/.work/replay-target" cargo build --offline --quiet --manifest-path replay/Cargo.toml
echo setup ok
