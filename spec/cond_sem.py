"""Witness generator + independent interpreter for C08: nested .if/.ifdef/.ifndef/.elif/.else/.endif chains with markers.
Every marker is a `.db N, 0` line; the reference interpreter selects the first branch whose condition holds (or .else)."""
import random

GARBAGE = ['this is not assembly @@@ ((', '   ldi r99, ,,', '.dw "string", )', 'label without colon nop nop', '.unknowndirective 1 2 3']


class Gen:
    def __init__(self, rnd):
        self.rnd = rnd
        self.n = 0
        self.defined = set()

    def marker(self):
        self.n += 1
        return ('m', self.n % 250 + 1)

    def cond(self):
        r = self.rnd.random()
        if r < 0.45:
            v = self.rnd.random() < 0.5
            txt = self.rnd.choice(['1', '2 > 1', 'ONE == 1', '5 - 4', '!0'] if v else ['0', '4 > 5', 'ONE == 2', '3 - 3', '!1'])
            return ('if', txt, v)
        name = self.rnd.choice(['FA', 'FB', 'FC'])
        isdef = name in self.defined
        if r < 0.75:
            return ('ifdef', name, isdef)
        return ('ifndef', name, not isdef)

    def block(self, depth, live):
        """-> list of nodes; `live`: is this block assembled (defines only take effect then)"""
        out = []
        for _ in range(self.rnd.randint(1, 3)):
            r = self.rnd.random()
            if r < 0.45 or depth >= 3:
                out.append(self.marker())
            elif r < 0.55:
                name = self.rnd.choice(['FA', 'FB', 'FC'])
                out.append(('define', name))
                if live:
                    self.defined.add(name)
            elif r < 0.62 and not live:
                out.append(('garbage', self.rnd.choice(GARBAGE)))
            else:
                arms = []
                taken = False
                first = self.cond()
                for i in range(self.rnd.randint(1, 4)):
                    if i == 0:
                        c = first
                    else:
                        v = self.rnd.random() < 0.5
                        c = ('elif', self.rnd.choice(['1', 'ONE == 1', '7 > 2'] if v else ['0', 'ONE == 0', '2 > 7']), v)
                    sel = live and not taken and c[2]
                    arms.append((c, self.block(depth + 1, sel)))
                    taken = taken or c[2]
                els = None
                if self.rnd.random() < 0.6:
                    els = self.block(depth + 1, live and not taken)
                out.append(('chain', arms, els))
        return out


def render(nodes, ind=0):
    lines = []
    pad = ' ' * ind
    for nd in nodes:
        if nd[0] == 'm':
            lines.append('%s.db %d, 0' % (pad, nd[1]))
        elif nd[0] == 'define':
            lines.append('%s.define %s' % (pad, nd[1]))
        elif nd[0] == 'garbage':
            lines.append(pad + nd[1])
        else:
            for i, (c, blk) in enumerate(nd[1]):
                kw = {'if': '.if', 'ifdef': '.ifdef', 'ifndef': '.ifndef', 'elif': '.elif'}[c[0]]
                lines.append('%s%s %s' % (pad, kw if i == 0 or c[0] == 'elif' else kw, c[1]))
                lines += render(blk, ind + 2)
            if nd[2] is not None:
                lines.append(pad + '.else')
                lines += render(nd[2], ind + 2)
            lines.append(pad + '.endif')
    return lines


def selected(nodes):
    """reference interpreter -> (marker list, text lines with the unselected lines deleted)"""
    ms, keep = [], []
    for nd in nodes:
        if nd[0] == 'm':
            ms.append(nd[1])
            keep.append('.db %d, 0' % nd[1])
        elif nd[0] == 'define':
            keep.append('.define %s' % nd[1])
        elif nd[0] == 'garbage':
            raise AssertionError('garbage in a live block')
        else:
            done = False
            for c, blk in nd[1]:
                if not done and c[2]:
                    m2, k2 = selected(blk)
                    ms += m2
                    keep += k2
                    done = True
            if not done and nd[2] is not None:
                m2, k2 = selected(nd[2])
                ms += m2
                keep += k2
    return ms, keep


def witnesses(n, seed):
    rnd = random.Random(seed)
    out = []
    for _ in range(n):
        g = Gen(rnd)
        nodes = g.block(0, True)
        src = '.equ ONE = 1\n' + '\n'.join(render(nodes)) + '\n'
        ms, keep = selected(nodes)
        out.append((src, bytes(b for m in ms for b in (m, 0)), '.equ ONE = 1\n' + '\n'.join(keep) + '\n'))
    return out
