"""Reference layout model for C02 / C06 witnesses: a tiny two-pass assembler over a restricted item vocabulary, written from the
property text (labels = position of the next item; .org N -> next item at N, gap zero-filled; .db padded to even length per line in
flash, not in EEPROM; .byte n = n zero bytes in EEPROM, n bytes of RAM in .dseg).  Encodings come from spec/isa.py."""
import random

import isa

RAM_START = 0x60


def gen_program(rnd, n_items=14):
    """-> list of item tuples; labels are l0,l1,..; references may be forward"""
    items = []
    nlab = 0
    seg = 'c'
    off = {'c': 0, 'd': RAM_START, 'e': 0}
    # first decide label count so forward references are possible
    total_labels = rnd.randint(2, 5)
    for i in range(n_items):
        r = rnd.random()
        if r < 0.18 and nlab < total_labels:
            items.append(('label', 'l%d' % nlab))
            nlab += 1
        elif r < 0.30:
            seg = rnd.choice('cde')
            items.append(('seg', seg))
        elif r < 0.40:
            gap = rnd.choice([0, 1, 2, 5, 16])
            items.append(('org_rel', gap))          # resolved to an absolute address by the reference (current offset + gap), never 0
        elif seg == 'c':
            k = rnd.random()
            if k < 0.3:
                items.append(('ins', 'nop', []))
            elif k < 0.45:
                items.append(('ins', 'jmp', [('lab', rnd.randrange(total_labels))]))
            elif k < 0.6:
                items.append(('ins', 'ldi', [('reg', 16 + rnd.randrange(16)), ('lowlab', rnd.randrange(total_labels))]))
            elif k < 0.8:
                items.append(('db', [rnd.randrange(256) for _ in range(rnd.randint(1, 5))], rnd.choice(['', 'ab', 'xyz', 'é'])))
            else:
                items.append(('dw', [('lab', rnd.randrange(total_labels)) if rnd.random() < 0.6 else ('num', rnd.randrange(65536)) for _ in range(rnd.randint(1, 3))]))
        elif seg == 'e':
            k = rnd.random()
            if k < 0.4:
                items.append(('db', [rnd.randrange(256) for _ in range(rnd.randint(1, 5))], rnd.choice(['', 'q', 'odd'])))
            elif k < 0.7:
                items.append(('dw', [('lab', rnd.randrange(total_labels)) if rnd.random() < 0.5 else ('num', rnd.randrange(65536)) for _ in range(rnd.randint(1, 3))]))
            else:
                items.append(('byte', rnd.randint(0, 7)))
        else:
            items.append(('byte', rnd.randint(0, 9)))
    while nlab < total_labels:
        items.append(('label', 'l%d' % nlab))
        nlab += 1
    # make sure the label values are visible: a table of all labels at the end of the code segment
    items.append(('seg', 'c'))
    items.append(('dw', [('lab', i) for i in range(total_labels)]))
    return items


def size_of(it, seg):
    k = it[0]
    if k == 'ins':
        return 2 if it[1] == 'jmp' else 1
    if k == 'db':
        n = len(it[1]) + len(it[2].encode('utf8'))
        return (n + 1) // 2 if seg == 'c' else n
    if k == 'dw':
        return len(it[1]) if seg == 'c' else 2 * len(it[1])
    if k == 'byte':
        return it[1]
    return 0


def reference(items):
    """-> (source text, expected code bytes, expected eeprom bytes, ram_filling)"""
    # pass A: addresses
    seg = 'c'
    off = {'c': 0, 'd': RAM_START, 'e': 0}
    labels = {}
    placed = []
    lines = []
    ext = {'c': 0, 'd': 0, 'e': 0}
    pending = None     # an .org takes effect for what follows it in the same segment block; it is void if the block ends first
    for it in items:
        k = it[0]
        if k == 'label':
            if pending is not None:
                off[seg] = pending
                pending = None
            labels[int(it[1][1:])] = off[seg]
            ext[seg] = max(ext[seg], off[seg])
            lines.append('%s:' % it[1].upper() if len(labels) % 2 else '%s:' % it[1])
        elif k == 'seg':
            if it[1] != seg:
                pending = None
            seg = it[1]
            lines.append({'c': '.cseg', 'd': '.dseg', 'e': '.eseg'}[seg])
        elif k == 'org_rel':
            base = pending if pending is not None else off[seg]
            target = base + it[1]
            if target == 0:
                lines.append('.org 0x0')
                continue
            pending = target
            lines.append('.org 0x%x' % target)
        else:
            if pending is not None:
                off[seg] = pending
                pending = None
            placed.append((seg, off[seg], it))
            off[seg] += size_of(it, seg)
            ext[seg] = max(ext[seg], off[seg])
            lines.append(None)   # filled in pass B
    # pass B: bytes
    code, ee = {}, {}

    def val(o):
        return labels[o[1]] if o[0] == 'lab' else o[1]

    pi = 0
    out_lines = []
    for ln in lines:
        if ln is not None:
            out_lines.append(ln)
            continue
        seg, addr, it = placed[pi]
        pi += 1
        k = it[0]
        img = code if seg == 'c' else ee
        unit = 2 if seg == 'c' else 1
        if k == 'ins':
            if it[1] == 'nop':
                w = isa.encode('nop', [], addr)
                txt = 'nop'
            elif it[1] == 'jmp':
                w = isa.encode('jmp', [('expr', labels[it[2][0][1]])], addr)
                txt = 'jmp l%d' % it[2][0][1]
            else:
                w = isa.encode('ldi', [('reg', it[2][0][1]), ('expr', labels[it[2][1][1]] & 0xff)], addr)
                txt = 'ldi r%d, low(L%d)' % (it[2][0][1], it[2][1][1])
            b = isa.le_bytes(w)
            out_lines.append(txt)
        elif k == 'db':
            b = bytes(it[1]) + it[2].encode('utf8')
            if seg == 'c' and len(b) % 2:
                b += b'\0'
            ops = [str(x) for x in it[1]]
            if it[2]:
                ops.insert(len(ops) // 2, '"%s"' % it[2])
                # keep byte order consistent with the text: numbers before the string position, string, numbers after
                h = len(it[1]) // 2
                b = bytes(it[1][:h]) + it[2].encode('utf8') + bytes(it[1][h:])
                if seg == 'c' and len(b) % 2:
                    b += b'\0'
            out_lines.append('.db ' + ', '.join(ops))
        elif k == 'dw':
            vs = [val(o) for o in it[1]]
            b = b''.join(bytes([v & 0xff, (v >> 8) & 0xff]) for v in vs)
            out_lines.append('.dw ' + ', '.join(('l%d' % o[1]) if o[0] == 'lab' else ('0x%x' % o[1]) for o in it[1]))
        elif k == 'byte':
            b = b'\0' * it[1] if seg == 'e' else b''
            out_lines.append('.byte %d' % it[1])
        if seg != 'd':
            for j, x in enumerate(b):
                a = unit * addr + j
                assert a not in img
                img[a] = x

    def flat(img, n):
        return bytes(img.get(a, 0) for a in range(n))
    # the images extend to the end of the last thing placed in each memory (a label after an .org counts: the gap is zero-filled)
    return '\n'.join(out_lines) + '\n', flat(code, 2 * ext['c']), flat(ee, ext['e']), off['d'] - RAM_START


def witnesses(n, seed):
    rnd = random.Random(seed)
    out = []
    for _ in range(n):
        items = gen_program(rnd, rnd.randint(6, 18))
        try:
            out.append(reference(items))
        except KeyError:
            continue
    return out
