"""AVR instruction set table -- the independent oracle for C01 / C03 / C04.

Transcribed from the AVR Instruction Set Manual (Atmel-0856 / Microchip DS40002198): one row per mnemonic form with
the 16-bit (or 32-bit) opcode pattern exactly as printed there, the operand kinds, and the alias it decodes to.
Nothing here is derived from /repo's encoder.

Pattern letters are filled MSB first with the operand's *field value* (see KINDS for the manual's transforms).
"""

# operand kinds: name -> (position class, description, legal predicate (python), field value (python))
#   position class: 'reg' (register operand), 'expr' (constant expression), 'idx' (pointer form)
KINDS = {
    'R5':    ('reg',  'r0..r31',                  lambda r: 0 <= r <= 31,                 lambda r: r),
    'R4H':   ('reg',  'r16..r31 -> d-16',         lambda r: 16 <= r <= 31,                lambda r: r - 16),
    'R3H':   ('reg',  'r16..r23 -> d-16',         lambda r: 16 <= r <= 23,                lambda r: r - 16),
    'RW':    ('reg',  'even register -> d/2',     lambda r: 0 <= r <= 30 and r % 2 == 0,  lambda r: r // 2),
    'RP':    ('reg',  'r24,26,28,30 -> (d-24)/2', lambda r: r in (24, 26, 28, 30),        lambda r: (r - 24) // 2),
    'K8':    ('expr', '8-bit immediate -128..255 -> K mod 256', lambda k: -128 <= k <= 255, lambda k: k & 0xff),
    'K8C':   ('expr', 'cbr: 8-bit mask -> ~K',    lambda k: -128 <= k <= 255,             lambda k: (~k) & 0xff),
    'K6':    ('expr', '0..63',                    lambda k: 0 <= k <= 63,                 lambda k: k),
    'A6':    ('expr', 'I/O address 0..63',        lambda k: 0 <= k <= 63,                 lambda k: k),
    'A5':    ('expr', 'I/O address 0..31',        lambda k: 0 <= k <= 31,                 lambda k: k),
    'B3':    ('expr', 'bit number 0..7',          lambda k: 0 <= k <= 7,                  lambda k: k),
    'K22':   ('expr', 'program address 0..4194303', lambda k: 0 <= k <= 4194303,          lambda k: k),
    'K16':   ('expr', 'data address 0..65535',    lambda k: 0 <= k <= 65535,              lambda k: k),
    # reduced core (AVRrc) lds/sts: ADDR[7:0] = (~INST[8], INST[8], INST[10], INST[9], INST[3:0]); field MSB first = A5 A4 A6 A3..A0
    'K7L':   ('expr', 'reduced-core data address 0x40..0xbf', lambda k: 0x40 <= k <= 0xbf,
              lambda k: (((k >> 5) & 1) << 6) | (((k >> 4) & 1) << 5) | (((k >> 6) & 1) << 4) | (k & 0xf)),
    # relative targets: the operand is the *target* address k; d = k - (pc + 1)
    'REL7':  ('rel',  'target with -64 <= k-(pc+1) <= 63',     lambda d: -64 <= d <= 63,     lambda d: d & 0x7f),
    'REL12': ('rel',  'target with -2048 <= k-(pc+1) <= 2047', lambda d: -2048 <= d <= 2047, lambda d: d & 0xfff),
}

# index forms: name -> (mode, reg16, has_q)   mode: 0 none, 1 post-increment, 2 pre-decrement, 3 displacement
IDX = {
    'X': (0, 'X', False), 'X+': (1, 'X', False), '-X': (2, 'X', False),
    'Y': (0, 'Y', False), 'Y+': (1, 'Y', False), '-Y': (2, 'Y', False),
    'Z': (0, 'Z', False), 'Z+': (1, 'Z', False), '-Z': (2, 'Z', False),
    'Y+q': (3, 'Y', True), 'Z+q': (3, 'Z', True),
}

ROWS = []


def row(mn, ops, pat, letters, alias=None, core='any', variant=None):
    """ops: operand kinds in SOURCE order; letters: pattern letter per operand ('' = none)"""
    p = pat.replace(' ', '')
    assert len(p) in (16, 32), (mn, pat)
    ROWS.append(dict(mn=mn, ops=ops, pat=p, letters=letters, alias=alias or mn, words=len(p) // 16, core=core,
                     variant=variant or mn.capitalize()))


for mn, hi in [('add', '0000 11'), ('adc', '0001 11'), ('sub', '0001 10'), ('sbc', '0000 10'), ('and', '0010 00'),
               ('or', '0010 10'), ('eor', '0010 01'), ('cpse', '0001 00'), ('cp', '0001 01'), ('cpc', '0000 01'),
               ('mov', '0010 11'), ('mul', '1001 11')]:
    row(mn, ['R5', 'R5'], hi + 'rd dddd rrrr', ['d', 'r'])
row('adiw', ['RP', 'K6'], '1001 0110 KKdd KKKK', ['d', 'K'])
row('sbiw', ['RP', 'K6'], '1001 0111 KKdd KKKK', ['d', 'K'])
for mn, hi, k, al in [('subi', '0101', 'K8', None), ('sbci', '0100', 'K8', None), ('andi', '0111', 'K8', None),
                      ('ori', '0110', 'K8', None), ('sbr', '0110', 'K8', 'ori'), ('cbr', '0111', 'K8C', 'andi'),
                      ('cpi', '0011', 'K8', None), ('ldi', '1110', 'K8', None)]:
    row(mn, ['R4H', k], hi + ' KKKK dddd KKKK', ['d', 'K'], alias=al)
for mn, pat in [('com', '1001 010d dddd 0000'), ('neg', '1001 010d dddd 0001'), ('inc', '1001 010d dddd 0011'),
                ('dec', '1001 010d dddd 1010'), ('push', '1001 001d dddd 1111'), ('pop', '1001 000d dddd 1111'),
                ('lsr', '1001 010d dddd 0110'), ('ror', '1001 010d dddd 0111'), ('asr', '1001 010d dddd 0101'),
                ('swap', '1001 010d dddd 0010')]:
    row(mn, ['R5'], pat, ['d'])
# one-operand aliases of two-register instructions: the register goes into both fields (d and r)
row('tst', ['R5'], '0010 00Dd dddd DDDD', ['dD'], alias='and')
row('clr', ['R5'], '0010 01Dd dddd DDDD', ['dD'], alias='eor')
row('lsl', ['R5'], '0000 11Dd dddd DDDD', ['dD'], alias='add')
row('rol', ['R5'], '0001 11Dd dddd DDDD', ['dD'], alias='adc')
row('ser', ['R4H'], '1110 1111 dddd 1111', ['d'], alias='ldi')
row('muls', ['R4H', 'R4H'], '0000 0010 dddd rrrr', ['d', 'r'])
row('mulsu', ['R3H', 'R3H'], '0000 0011 0ddd 0rrr', ['d', 'r'])
row('fmul', ['R3H', 'R3H'], '0000 0011 0ddd 1rrr', ['d', 'r'])
row('fmuls', ['R3H', 'R3H'], '0000 0011 1ddd 0rrr', ['d', 'r'])
row('fmulsu', ['R3H', 'R3H'], '0000 0011 1ddd 1rrr', ['d', 'r'])
row('rjmp', ['REL12'], '1100 kkkk kkkk kkkk', ['k'])
row('rcall', ['REL12'], '1101 kkkk kkkk kkkk', ['k'])
for mn, pat in [('ijmp', '1001 0100 0000 1001'), ('eijmp', '1001 0100 0001 1001'), ('icall', '1001 0101 0000 1001'),
                ('eicall', '1001 0101 0001 1001'), ('ret', '1001 0101 0000 1000'), ('reti', '1001 0101 0001 1000'),
                ('spm', '1001 0101 1110 1000'), ('break', '1001 0101 1001 1000'), ('nop', '0000 0000 0000 0000'),
                ('sleep', '1001 0101 1000 1000'), ('wdr', '1001 0101 1010 1000')]:
    row(mn, [], pat, [])
row('jmp', ['K22'], '1001 010k kkkk 110k kkkk kkkk kkkk kkkk', ['k'])
row('call', ['K22'], '1001 010k kkkk 111k kkkk kkkk kkkk kkkk', ['k'])
# conditional branches: brbs/brbc s,k and their 18 documented aliases
row('brbs', ['B3', 'REL7'], '1111 00kk kkkk ksss', ['s', 'k'], variant='Br(BranchT::Bs)')
row('brbc', ['B3', 'REL7'], '1111 01kk kkkk ksss', ['s', 'k'], variant='Br(BranchT::Bc)')
for mn, base, s in [('breq', 'brbs', 1), ('brne', 'brbc', 1), ('brcs', 'brbs', 0), ('brcc', 'brbc', 0), ('brsh', 'brbc', 0),
                    ('brlo', 'brbs', 0), ('brmi', 'brbs', 2), ('brpl', 'brbc', 2), ('brge', 'brbc', 4), ('brlt', 'brbs', 4),
                    ('brhs', 'brbs', 5), ('brhc', 'brbc', 5), ('brts', 'brbs', 6), ('brtc', 'brbc', 6), ('brvs', 'brbs', 3),
                    ('brvc', 'brbc', 3), ('brie', 'brbs', 7), ('brid', 'brbc', 7)]:
    row(mn, ['REL7'], '1111 0%skk kkkk k%s' % ('0' if base == 'brbs' else '1', format(s, '03b')), ['k'], alias=base,
        variant='Br(BranchT::%s)' % mn[2:].capitalize())
row('sbic', ['A5', 'B3'], '1001 1001 AAAA Abbb', ['A', 'b'])
row('sbis', ['A5', 'B3'], '1001 1011 AAAA Abbb', ['A', 'b'])
row('sbrc', ['R5', 'B3'], '1111 110r rrrr 0bbb', ['r', 'b'])
row('sbrs', ['R5', 'B3'], '1111 111r rrrr 0bbb', ['r', 'b'])
row('movw', ['RW', 'RW'], '0000 0001 dddd rrrr', ['d', 'r'])
row('lds', ['R5', 'K16'], '1001 000d dddd 0000 kkkk kkkk kkkk kkkk', ['d', 'k'], core='classic')
row('sts', ['K16', 'R5'], '1001 001d dddd 0000 kkkk kkkk kkkk kkkk', ['k', 'd'], core='classic')
row('lds', ['R4H', 'K7L'], '1010 0kkk dddd kkkk', ['d', 'k'], core='avr8l')
row('sts', ['K7L', 'R4H'], '1010 1kkk dddd kkkk', ['k', 'd'], core='avr8l')
# ld/st with the nine pointer forms and ldd/std with displacement.  avra-rs (like most assemblers) accepts the
# displacement form under `ld`/`st` and the plain forms under `ldd`/`std`; the manual defines the *encoding* per pointer
# form, so the table is keyed by the form and lists both spellings.
LD_FORMS = [('X', '1001 00_d dddd 1100'), ('X+', '1001 00_d dddd 1101'), ('-X', '1001 00_d dddd 1110'),
            ('Y', '1000 00_d dddd 1000'), ('Y+', '1001 00_d dddd 1001'), ('-Y', '1001 00_d dddd 1010'),
            ('Z', '1000 00_d dddd 0000'), ('Z+', '1001 00_d dddd 0001'), ('-Z', '1001 00_d dddd 0010'),
            ('Y+q', '10q0 qq_d dddd 1qqq'), ('Z+q', '10q0 qq_d dddd 0qqq')]
for form, pat in LD_FORMS:
    for mn in ('ld', 'ldd'):
        row(mn, ['R5', form], pat.replace('_', '0'), ['d', 'q' if 'q' in form else ''], alias='ldd' if 'q' in form else 'ld')
    for mn in ('st', 'std'):
        row(mn, [form, 'R5'], pat.replace('_', '1'), ['q' if 'q' in form else '', 'd'], alias='std' if 'q' in form else 'st')
row('lpm', [], '1001 0101 1100 1000', [])
row('lpm', ['R5', 'Z'], '1001 000d dddd 0100', ['d', ''])
row('lpm', ['R5', 'Z+'], '1001 000d dddd 0101', ['d', ''])
row('elpm', [], '1001 0101 1101 1000', [])
row('elpm', ['R5', 'Z'], '1001 000d dddd 0110', ['d', ''])
row('elpm', ['R5', 'Z+'], '1001 000d dddd 0111', ['d', ''])
row('in', ['R5', 'A6'], '1011 0AAd dddd AAAA', ['d', 'A'])
row('out', ['A6', 'R5'], '1011 1AAd dddd AAAA', ['A', 'd'])
row('cbi', ['A5', 'B3'], '1001 1000 AAAA Abbb', ['A', 'b'])
row('sbi', ['A5', 'B3'], '1001 1010 AAAA Abbb', ['A', 'b'])
row('bset', ['B3'], '1001 0100 0sss 1000', ['s'])
row('bclr', ['B3'], '1001 0100 1sss 1000', ['s'])
row('bst', ['R5', 'B3'], '1111 101d dddd 0bbb', ['d', 'b'])
row('bld', ['R5', 'B3'], '1111 100d dddd 0bbb', ['d', 'b'])
for i, f in enumerate('czNvshti'.lower()):
    row('se' + f, [], '1001 0100 0%s 1000' % format(i, '03b'), [], alias='bset', variant='Se(SFlags::%s)' % f.upper())
    row('cl' + f, [], '1001 0100 1%s 1000' % format(i, '03b'), [], alias='bclr', variant='Cl(SFlags::%s)' % f.upper())

MNEMONICS = sorted(set(r['mn'] for r in ROWS))


def scatter(pat, fields):
    """fields: letter -> value.  Fill letter positions MSB first; 'D' mirrors 'd' (tst/clr/lsl/rol: Rd in both fields,
    the r field being split as r4 . rrrr around the d field exactly like add/adc/and/eor)."""
    # count positions per letter
    out = 0
    n = len(pat)
    counts = {}
    for ch in pat:
        if ch not in '01':
            counts[ch] = counts.get(ch, 0) + 1
    seen = {}
    for i, ch in enumerate(pat):
        bit = 0
        if ch == '1':
            bit = 1
        elif ch == '0':
            bit = 0
        else:
            k = seen.get(ch, 0)
            seen[ch] = k + 1
            v = fields[ch]
            bit = (v >> (counts[ch] - 1 - k)) & 1
        out |= bit << (n - 1 - i)
    return out


def rows_for(mn, avr8l):
    return [r for r in ROWS if r['mn'] == mn and (r['core'] == 'any' or (r['core'] == 'avr8l') == bool(avr8l))]


def encode(mn, operands, addr=0, avr8l=False):
    """operands: list of ('reg', n) | ('expr', k) | ('idx', form, q)  in source order.
    Returns list of 16-bit words, or None when the ISA has no encoding for these operands (must be rejected)."""
    for r in rows_for(mn, avr8l):
        if len(r['ops']) != len(operands):
            continue
        fields = {}
        ok = True
        for kind, letter, o in zip(r['ops'], r['letters'], operands):
            if kind in IDX:
                if o[0] != 'idx' or o[1] != kind:
                    ok = False
                    break
                if IDX[kind][2]:
                    q = o[2]
                    if not (0 <= q <= 63):
                        ok = False
                        break
                    fields['q'] = q
                continue
            cls, _, legal, val = KINDS[kind]
            if cls == 'reg':
                if o[0] != 'reg' or not legal(o[1]):
                    ok = False
                    break
                v = val(o[1])
            elif cls == 'expr':
                if o[0] != 'expr' or not legal(o[1]):
                    ok = False
                    break
                v = val(o[1])
            else:  # rel
                if o[0] != 'expr':
                    ok = False
                    break
                d = o[1] - (addr + 1)
                if not legal(d):
                    ok = False
                    break
                v = val(d)
            if letter == 'dD':
                fields['d'] = v
                # the 5-bit register also fills the split r field: r4 -> 'D' first position, r3..0 -> last four
                fields['D'] = v
            elif letter:
                fields[letter] = v
        if not ok:
            continue
        w = scatter(r['pat'], fields)
        if r['words'] == 2:
            return [(w >> 16) & 0xffff, w & 0xffff]
        return [w]
    return None


def le_bytes(words):
    return b''.join(bytes([w & 0xff, w >> 8]) for w in words)


# ---------------------------------------------------------------------------------------- decoder (self-consistency)
def fixed_mask(pat):
    m = v = 0
    n = len(pat)
    for i, ch in enumerate(pat):
        if ch in '01':
            m |= 1 << (n - 1 - i)
            v |= int(ch) << (n - 1 - i)
    return m, v


def decode16(word, avr8l=False):
    """rows (non-alias spellings) whose fixed bits match the first word"""
    hits = []
    for r in ROWS:
        if r['alias'] != r['mn']:
            continue
        if r['core'] != 'any' and (r['core'] == 'avr8l') != bool(avr8l):
            continue
        p = r['pat'][:16]
        m, v = fixed_mask(p)
        if word & m == v:
            hits.append(r)
    return hits


def self_check():
    """The table is a function: within one core no two canonical rows match the same word, except the pairs the
    manual itself lists as the same encoding.  Returns list of problems."""
    problems = []
    for avr8l in (False, True):
        for w in range(0x10000):
            hits = decode16(w, avr8l)
            names = sorted(set((h['mn'], tuple(h['ops'])) for h in hits))
            # the manual itself gives `ld Rd,Y|Z` and `st Y|Z,Rr` as the q=0 case of ldd/std, and on the reduced core the
            # 16-bit lds/sts occupy part of the (absent there) ldd/std space
            mns = set(n[0] for n in names)
            if mns <= {'ld', 'ldd'} or mns <= {'st', 'std'} or (avr8l and mns <= {'lds', 'sts', 'ld', 'ldd', 'st', 'std'}):
                continue
            if len(names) > 1:
                problems.append('word %#06x matches %s (avr8l=%s)' % (w, names, avr8l))
                if len(problems) > 20:
                    return problems
    return problems


if __name__ == '__main__':
    import sys
    print(len(ROWS), 'rows,', len(MNEMONICS), 'mnemonics')
    for t in [('add', [('reg', 1), ('reg', 2)]), ('ldi', [('reg', 16), ('expr', 5)]), ('tst', [('reg', 17)]),
              ('brne', [('expr', 0)]), ('jmp', [('expr', 0x12345)]), ('ldd', [('reg', 3), ('idx', 'Y+q', 33)]),
              ('sts', [('expr', 0x80), ('reg', 17)])]:
        w = encode(t[0], t[1], addr=4, avr8l=(t[0] == 'sts'))
        print(t, [hex(x) for x in w] if w else None)
    p = self_check()
    print('self-check problems:', p[:10])
