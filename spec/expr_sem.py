"""Executable twin of the operator table of C05 on mathematical integers, and a generator of expression texts rendered with
only the parentheses the precedence table requires (binding witnesses for the grammar, which no verifier here can reach)."""
import random

I64_MIN, I64_MAX = -(1 << 63), (1 << 63) - 1

# binding strength, loosest first (the property: unary - ! ~ tightest, then * / %, + -, << >>, < <= > >=, == !=, &, ^, |, &&, ||)
LEVELS = [['||'], ['&&'], ['|'], ['^'], ['&'], ['==', '!='], ['<', '<=', '>', '>='], ['<<', '>>'], ['+', '-'], ['*', '/', '%']]
PREC = {op: i for i, ops in enumerate(LEVELS) for op in ops}
UNARY = ['-', '!', '~']
FUNCS = ['low', 'high', 'byte2', 'byte3', 'byte4', 'lwrd', 'hwrd', 'exp2']


class Fail(Exception):
    pass


def fit(v):
    if v < I64_MIN or v > I64_MAX:
        raise Fail()
    return v


def tdiv(a, b):
    q = abs(a) // abs(b)
    return q if (a >= 0) == (b > 0) else -q


def wrap(v):
    v &= (1 << 64) - 1
    return v - (1 << 64) if v >> 63 else v


def binop(op, a, b):
    if op == '+': return fit(a + b)
    if op == '-': return fit(a - b)
    if op == '*': return fit(a * b)
    if op == '/':
        if b == 0: raise Fail()
        return fit(tdiv(a, b))
    if op == '%':
        if b == 0: raise Fail()
        fit(tdiv(a, b))
        return a - b * tdiv(a, b)
    if op == '&': return wrap((a & ((1 << 64) - 1)) & (b & ((1 << 64) - 1)))
    if op == '|': return wrap((a & ((1 << 64) - 1)) | (b & ((1 << 64) - 1)))
    if op == '^': return wrap((a & ((1 << 64) - 1)) ^ (b & ((1 << 64) - 1)))
    if op == '<<':
        if not 0 <= b <= 63: raise Fail()
        return wrap(a << b)
    if op == '>>':
        if not 0 <= b <= 63: raise Fail()
        return a >> b
    if op == '<': return int(a < b)
    if op == '<=': return int(a <= b)
    if op == '>': return int(a > b)
    if op == '>=': return int(a >= b)
    if op == '==': return int(a == b)
    if op == '!=': return int(a != b)
    if op == '&&': return int(a != 0 and b != 0)
    if op == '||': return int(a != 0 or b != 0)
    raise ValueError(op)


def unop(op, a):
    if op == '-': return fit(-a)
    if op == '~': return -a - 1
    if op == '!': return int(a == 0)
    raise ValueError(op)


def func(name, a):
    u = a % (1 << 64)
    n = name.lower()
    if n == 'low': return u % 256
    if n in ('high', 'byte2'): return (u // 256) % 256
    if n == 'byte3': return (u // 65536) % 256
    if n == 'byte4': return (u // (1 << 24)) % 256
    if n == 'lwrd': return u % 65536
    if n == 'hwrd': return (u // 65536) % 65536
    if n == 'exp2':
        if not 0 <= a <= 62: raise Fail()
        return 1 << a
    raise ValueError(name)


# tree: ('c', value, text) | ('b', op, l, r) | ('u', op, e) | ('f', name, e) | ('s', symbol, value)
def ev(t):
    k = t[0]
    if k == 'c': return t[1]
    if k == 's': return t[2]
    if k == 'b': return binop(t[1], ev(t[2]), ev(t[3]))
    if k == 'u': return unop(t[1], ev(t[2]))
    if k == 'f': return func(t[1], ev(t[2]))


def render(t, parent_prec=-1, side=None, rnd=None):
    """minimal parentheses for a left-associative grammar with the precedence table above"""
    k = t[0]
    if k == 'c': return t[2]
    if k == 's': return t[1]
    if k == 'f': return '%s(%s)' % (t[1], render(t[2]))
    if k == 'u':
        inner = t[2]
        s = render(inner, 100, 'u')
        return t[1] + s
    p = PREC[t[1]]
    sp = ' ' if (rnd is None or rnd.random() < 0.5) else ''
    s = '%s%s%s%s%s' % (render(t[2], p, 'l', rnd), sp, t[1], sp, render(t[3], p, 'r', rnd))
    need = p < parent_prec or (p == parent_prec and side == 'r') or parent_prec == 100
    return '(%s)' % s if need else s


def lit(rnd, v):
    if v < 0:
        return None
    forms = [str(v) if not (v > 7 and str(v).startswith('0')) else str(v), '0x%x' % v, '$%X' % v, '0b' + bin(v)[2:]]
    if v > 0:
        forms.append('0' + oct(v)[2:])
    if 32 < v < 127 and chr(v) not in "'\"\;":
        forms.append("'%s'" % chr(v))
    return rnd.choice(forms)


GRID = [0, 1, 2, 3, 7, 8, 15, 16, 63, 64, 65, 127, 128, 255, 256, 0x1234, 0xffff, 0x10000, 0x7fffffff, 0x80000000, 0xffffffff,
        0x123456789a, I64_MAX]


def gen_tree(rnd, depth):
    if depth == 0 or rnd.random() < 0.25:
        v = rnd.choice(GRID)
        if v == 0 and rnd.random() < 0.5:
            return ('c', 0, '0')
        return ('c', v, lit(rnd, v))
    r = rnd.random()
    if r < 0.65:
        op = rnd.choice([o for ops in LEVELS for o in ops])
        return ('b', op, gen_tree(rnd, depth - 1), gen_tree(rnd, depth - 1))
    if r < 0.85:
        return ('u', rnd.choice(UNARY), gen_tree(rnd, depth - 1))
    name = rnd.choice(FUNCS)
    if rnd.random() < 0.3:
        name = name.upper()
    return ('f', name, gen_tree(rnd, depth - 1))


def witnesses(n, seed):
    """-> list of (expression text, expected int or None for 'build fails')"""
    rnd = random.Random(seed)
    out = []
    # every binary operator on the boundary grid (incl. negatives written with unary minus)
    grid = [0, 1, -1, 2, 63, 64, -64, I64_MAX, I64_MIN + 1]
    for ops in LEVELS:
        for op in ops:
            for a in grid:
                for b in (0, 1, -1, 2, 63, 64, I64_MAX):
                    ta = ('c', a, str(a)) if a >= 0 else ('u', '-', ('c', -a, str(-a)))
                    tb = ('c', b, str(b)) if b >= 0 else ('u', '-', ('c', -b, str(-b)))
                    t = ('b', op, ta, tb)
                    try:
                        e = ev(t)
                    except Fail:
                        e = None
                    out.append((render(t), e))
    # every ordered pair of operators without parentheses: precedence and associativity
    allops = [o for ops in LEVELS for o in ops]
    for o1 in allops:
        for o2 in allops:
            for (a, b, c) in ((7, 3, 2), (1, 0, 5)):
                src = '%d %s %d %s %d' % (a, o1, b, o2, c)
                A, B, C = ('c', a, str(a)), ('c', b, str(b)), ('c', c, str(c))
                if PREC[o2] > PREC[o1]:
                    t = ('b', o1, A, ('b', o2, B, C))
                else:
                    t = ('b', o2, ('b', o1, A, B), C)
                try:
                    e = ev(t)
                except Fail:
                    e = None
                out.append((src, e))
    for u in UNARY:
        for o in allops:
            for (a, b) in ((1, 2), (0, 3)):
                t = ('b', o, ('u', u, ('c', a, str(a))), ('c', b, str(b)))
                try:
                    e = ev(t)
                except Fail:
                    e = None
                out.append(('%s%d %s %d' % (u, a, o, b), e))
    while len(out) < n:
        t = gen_tree(rnd, rnd.choice([1, 2, 3, 3, 4]))
        try:
            e = ev(t)
        except Fail:
            e = None
        out.append((render(t, rnd=rnd), e))
    return out
