"""C11 witnesses: include trees on disk vs the program with the included lines pasted in place.

An independent model of the documented search rule (path as written, directory of the including file, directories supplied by
the caller, directories added by an earlier `.includepath`, a relative one resolved against the file containing the directive)
flattens a tree of files into ONE source text; the real assembler builds both and the results must agree.  Trees are generated
so that every name resolves to exactly one existing file (which directory wins among several is not fixed by the property).

A witness is (name, job, expectation):  job is the text of a replay job (`tree ...`), expectation is
    ('same_as', <flattened source>)      build_str(flattened) must give the same images / RAM use / status
    ('err_naming', <text>)               the build must fail and the error text must contain <text>
    ('err',)                             the build must fail (no crash)
"""
import posixpath
import random


class Tree:
    def __init__(self):
        self.files = {}      # relative path -> list of lines

    def job(self, main, incs=()):
        out = ['tree %s %s' % (main, ' '.join(incs))]
        for p, lines in self.files.items():
            out.append('@@ ' + p)
            out.extend(lines)
        return '\n'.join(out) + '\n'


def _norm(p):
    p = posixpath.normpath(p)
    return '' if p == '.' else p


class Missing(Exception):
    def __init__(self, name):
        self.name = name


def flatten(tree, main, caller_dirs=()):
    """the documented meaning of the tree: the lines of every included file in place of its .include"""
    out = []

    def find(name, dirs):
        cands = [_norm(name)] + [_norm(posixpath.join(d, name)) for d in dirs]
        hits = sorted(set(c for c in cands if c in tree.files))
        if not hits:
            raise Missing(name)
        assert len(hits) == 1, 'ambiguous witness %r -> %r' % (name, hits)
        return hits[0]

    def run(path, dirs, depth):
        assert depth < 80
        here = posixpath.dirname(path)
        dirs = set(dirs) | {here}
        added = set()
        for line in tree.files[path]:
            w = line.strip().split(None, 1)
            d = w[0].lower() if w else ''
            arg = w[1].strip().strip('"') if len(w) > 1 else ''
            if d == '.include':
                tgt = find(arg, dirs | added)
                added |= run(tgt, dirs | added, depth + 1)
            elif d == '.includepath':
                a = arg.replace('@ROOT@', '')
                if arg.startswith('@ROOT@'):
                    a = _norm(a.lstrip('/'))        # absolute path into the tree
                else:
                    a = _norm(posixpath.join(here, a))   # relative: against the directory of THIS file
                added.add(a)
            elif d == '.exit':
                break
            else:
                out.append(line)
        return added

    run(find(main, set(caller_dirs)), set(_norm(c.replace('@ROOT@', '').lstrip('/')) if c.startswith('@ROOT@') else _norm(c) for c in caller_dirs), 0)
    return '\n'.join(out) + '\n'


# ------------------------------------------------------------------------------------------------ fixed witnesses
def fixed():
    ws = []

    def same(name, t, main='main.asm', incs=()):
        ws.append((name, t.job(main, incs), ('same_as', flatten(t, main, incs))))

    t = Tree()
    t.files['main.asm'] = ['ldi r16, 1', '.include "a.inc"', 'ldi r17, VAL', 'rjmp inside', 'twice r18']
    t.files['a.inc'] = ['.equ VAL = 0x42', 'inside: nop', '.def tmp = r20', '.macro twice', 'add @0, @0', '.endm', 'mov tmp, r1']
    same('definitions_visible_afterwards', t)

    t = Tree()
    t.files['main.asm'] = ['nop', '.include "a.inc"', 'ret']
    t.files['a.inc'] = ['ldi r16, 2', '.exit', 'this is not assembly', '.error "must not be reached"']
    same('exit_ends_only_its_file', t)

    t = Tree()
    t.files['main.asm'] = ['.include "lib/f.inc"', '.include "x.inc"', '.include "y.inc"', 'ret']
    t.files['lib/f.inc'] = ['.includepath "deep"', 'nop', '.include "g.inc"']
    t.files['lib/g.inc'] = ['.includepath "../sub"', 'sleep']
    t.files['lib/deep/x.inc'] = ['ldi r16, 3']
    t.files['sub/y.inc'] = ['ldi r17, 4']
    same('includepath_inside_included_file_known_afterwards', t)

    t = Tree()
    t.files['main.asm'] = ['.include "lib/t.inc"', 'ret']
    t.files['lib/t.inc'] = ['.includepath "sub"', '.include "x.inc"']
    t.files['lib/sub/x.inc'] = ['ldi r16, 5']
    t.files['sub/other.inc'] = ['ldi r16, 6']
    same('relative_includepath_against_directory_of_its_file', t)

    t = Tree()
    t.files['src/main.asm'] = ['.include "near.inc"', '.include "far.inc"', '.include "abs.inc"', 'ret']
    t.files['src/near.inc'] = ['ldi r16, 7']
    t.files['ext/far.inc'] = ['ldi r17, 8']
    t.files['ext2/abs.inc'] = ['ldi r18, 9']
    same('caller_supplied_directories', t, 'src/main.asm', ('ext', '@ROOT@/ext2'))

    t = Tree()
    t.files['main.asm'] = ['.includepath "@ROOT@/deep/er"', '.include "z.inc"', 'ret']
    t.files['deep/er/z.inc'] = ['ldi r16, 10']
    same('absolute_includepath', t)

    t = Tree()
    n = 12
    t.files['main.asm'] = ['.include "d1/f1.inc"', 'ret']
    for i in range(1, n):
        t.files['d1/' * i + 'f%d.inc' % i] = ['ldi r16, %d' % i, '.include "d1/f%d.inc"' % (i + 1), 'ldi r17, %d' % i]
    t.files['d1/' * n + 'f%d.inc' % n] = ['.equ DEEP = 77', 'nop']
    same('nested_%d_deep_each_relative_to_its_own_directory' % n, t)

    t = Tree()
    t.files['main.asm'] = ['nop', '.include "a.inc"', '.include "a.inc"', 'ret']
    t.files['a.inc'] = ['ldi r16, 11']
    same('same_file_twice', t)

    t = Tree()
    t.files['main.asm'] = ['.include "sub/p.inc"', 'ret']
    t.files['sub/p.inc'] = ['.include "q.inc"']       # q.inc lives next to p.inc, not next to main.asm
    t.files['sub/q.inc'] = ['ldi r16, 12']
    same('directory_of_the_including_file', t)

    t = Tree()
    t.files['main.asm'] = ['.include "a.inc"', '.dseg', 'buf: .byte 3', '.cseg', 'ldi r16, low(buf)', 'ldi r17, low(v)']
    t.files['a.inc'] = ['.dseg', 'v: .byte 5', '.eseg', '.db 1, 2, 3', '.cseg', 'nop']
    same('segments_switched_inside', t)

    t = Tree()       # a relative caller directory spelled like the operand of an .includepath in a file elsewhere: two different directories
    t.files['main.asm'] = ['.include "lib/a.inc"', 'ret']
    t.files['lib/a.inc'] = ['.includepath "shared"', '.include "defs.inc"', 'ldi r16, D']
    t.files['lib/shared/defs.inc'] = ['.equ D = 5']
    t.files['shared/other.inc'] = ['.equ E = 6']
    same('includepath_spelled_like_a_caller_directory', t, 'main.asm', ('shared',))

    t = Tree()
    n = 64
    t.files['main.asm'] = ['.include "f1.inc"', 'ret']
    for i in range(1, n):
        t.files['f%d.inc' % i] = ['.include "f%d.inc"' % (i + 1)]
    t.files['f%d.inc' % n] = ['ldi r16, 64']
    same('nested_64_deep_is_still_accepted', t)

    t = Tree()
    t.files['main.asm'] = ['.message "main first"', '.include "lib/a.inc"', '.warning "main last"', 'ret']
    t.files['lib/a.inc'] = ['.message "a first"', '.include "b.inc"', '.message "a last"', 'nop']
    t.files['lib/b.inc'] = ['.warning "b only"', 'sleep']
    same('messages_of_included_files_in_place', t)

    t = Tree()
    t.files['main.asm'] = ['nop', '.include "sub/a.inc"']
    t.files['sub/a.inc'] = ['.include "gone.inc"']
    ws.append(('missing_nested_file_is_an_error_naming_it', t.job('main.asm'), ('err_naming', 'gone.inc')))

    t = Tree()
    t.files['other.asm'] = ['nop']
    ws.append(('missing_main_file_is_an_error_naming_it', t.job('main.asm'), ('err_naming', 'main.asm')))

    t = Tree()
    t.files['main.asm'] = ['nop', '.include "nowhere.inc"', 'ret']
    ws.append(('missing_file_is_an_error_naming_it', t.job('main.asm'), ('err_naming', 'nowhere.inc')))

    t = Tree()
    t.files['main.asm'] = ['.include "lib/a.inc"', '.include "b.inc"']      # directory of an included file is NOT searched afterwards
    t.files['lib/a.inc'] = ['nop']
    t.files['lib/b.inc'] = ['ret']
    ws.append(('directory_of_included_file_not_searched_afterwards', t.job('main.asm'), ('err_naming', 'b.inc')))

    # a relative .includepath is resolved against the directory of the file it is in and nowhere else: a directory of the same name under
    # the working directory (the root of the tree) is not a documented place
    t = Tree()
    t.files['proj/main.asm'] = ['.includepath "inc"', '.include "x.inc"', 'ret']
    t.files['inc/x.inc'] = ['ldi r16, 12']
    ws.append(('relative_includepath_not_resolved_against_working_directory', t.job('proj/main.asm'), ('err_naming', 'x.inc')))

    # the same for the main file: the path the caller gave is the one whose directory counts, also when it is a symbolic link
    t = Tree()
    t.files['shared/main.asm'] = ['.include "defs.inc"', '.includepath "inc"', '.include "more.inc"', 'ret']
    t.files['proj/defs.inc'] = ['ldi r16, 15']
    t.files['proj/inc/more.inc'] = ['ldi r17, 16']
    t.files['proj/main.asm -> ../shared/main.asm'] = []
    ws.append(('main_file_reached_through_a_symbolic_link', t.job('proj/main.asm'), ('same_as', 'ldi r16, 15\nldi r17, 16\nret\n')))

    # a main file found through a caller-supplied directory: a nested file found nowhere is still the one the error names
    t = Tree()
    t.files['lib/main.asm'] = ['nop', '.include "absent.inc"', 'ret']
    ws.append(('missing_nested_file_named_when_main_comes_from_caller_directory', t.job('main.asm', ('lib',)), ('err_naming', 'absent.inc')))
    t = Tree()
    t.files['lib/main.asm'] = ['nop', '.include "here.inc"', 'ret']
    t.files['lib/here.inc'] = ['ldi r16, 17']
    ws.append(('main_file_from_caller_directory', t.job('main.asm', ('lib',)), ('same_as', 'nop\nldi r16, 17\nret\n')))

    # the directory of the including file is the directory of the name it was included under, also when that name is a symbolic link
    t = Tree()
    t.files['proj/main.asm'] = ['.include "lib/b.inc"', 'ret']
    t.files['shared/b.inc'] = ['ldi r16, 13', '.include "c.inc"']
    t.files['proj/lib/c.inc'] = ['ldi r17, 14']
    t.files['proj/lib/b.inc -> ../../shared/b.inc'] = []
    ws.append(('including_file_reached_through_a_symbolic_link', t.job('proj/main.asm'), ('same_as', 'ldi r16, 13\nldi r17, 14\nret\n')))

    t = Tree()
    t.files['main.asm'] = ['nop', '.include "main.asm"']
    ws.append(('file_including_itself_fails_without_crash', t.job('main.asm'), ('err',)))

    t = Tree()
    t.files['main.asm'] = ['.include "a.inc"']
    t.files['a.inc'] = ['.include "b.inc"']
    t.files['b.inc'] = ['nop', '.include "a.inc"']
    ws.append(('include_cycle_fails_without_crash', t.job('main.asm'), ('err',)))

    ws.append(('includepath_with_root_as_working_directory', 'buildcwd /\n.includepath "x"\nnop\n', ('same_as', 'nop\n')))
    return ws


# ------------------------------------------------------------------------------------------------ generated witnesses
BODY = ['.message "m{n}"', '.warning "w{m}"', 'nop', 'ret', 'sleep', 'ldi r16, {n}', 'ldi r17, low({n}+1)', 'mov r{r}, r{s}', 'add r{r}, r{s}', '.db {n}, {m}', '.dw {n}', 'rjmp PC+{k}', 'call {n}']


def gen_tree(rnd):
    """random tree: unique base names; every .include names its target in one of the documented ways"""
    t = Tree()
    dirs = ['', 'inc', 'lib', 'lib/sub', 'ext/a', 'ext/b']
    nfiles = rnd.randint(2, 7)
    names = ['main.asm'] + ['f%d.inc' % i for i in range(1, nfiles)]
    place = {names[0]: rnd.choice(['', 'src'])}
    for n in names[1:]:
        place[n] = rnd.choice(dirs)
    path = {n: _norm(posixpath.join(place[n], n)) for n in names}
    caller = []
    if rnd.random() < 0.5:
        caller.append(rnd.choice(['ext/a', 'ext/b', '@ROOT@/lib']))
    caller_n = set(_norm(c.replace('@ROOT@/', '')) for c in caller)
    # include tree: every file but the first has at most one including file among the earlier ones (a file included twice would
    # define its labels twice; that case is a fixed witness)
    parent = {}
    for j in range(1, len(names)):
        if rnd.random() < 0.9:
            parent[names[j]] = names[rnd.randrange(0, j)]
    sym = 0
    for i, n in enumerate(names):
        lines = []
        here = place[n]
        known = set()        # directories made known by .includepath lines of THIS file so far (conservative: own lines only)
        kids = [m for m in names[i + 1:] if parent.get(m) == n]
        nbody = rnd.randint(1, 5)
        slots = sorted(rnd.sample(range(nbody + len(kids)), len(kids))) if kids else []
        ki = 0
        for s in range(nbody + len(kids)):
            if ki < len(kids) and s == slots[ki]:
                m = kids[ki]
                ki += 1
                tgt_dir = place[m]
                ways = ['written']                                       # path as written, relative to the working directory
                if tgt_dir == here:
                    ways.append('near')                                  # directory of the including file
                if tgt_dir in caller_n:
                    ways.append('caller')
                ways.append('includepath_rel')
                ways.append('includepath_abs')
                w = rnd.choice(ways)
                if w == 'written':
                    lines.append('.include "%s"' % path[m])
                elif w in ('near', 'caller'):
                    lines.append('.include "%s"' % m)
                elif w == 'includepath_rel':
                    rel = posixpath.relpath(tgt_dir or '.', here or '.')
                    lines.append('.includepath "%s"' % rel)
                    lines.append('.include "%s"' % m)
                else:
                    lines.append('.includepath "@ROOT@/%s"' % tgt_dir)
                    lines.append('.include "%s"' % m)
            else:
                b = rnd.choice(BODY).format(n=rnd.randint(0, 200), m=rnd.randint(0, 255), r=rnd.randint(0, 31), s=rnd.randint(0, 31), k=rnd.randint(0, 5))
                if rnd.random() < 0.25:
                    sym += 1
                    lines.append('.equ K%d = %d' % (sym, rnd.randint(0, 255)))
                    lines.append('ldi r18, K%d' % sym)
                elif rnd.random() < 0.15:
                    sym += 1
                    lines.append('L%d: %s' % (sym, b))
                else:
                    lines.append(b)
        if i > 0 and rnd.random() < 0.2:
            lines.append('.exit')
            lines.append(rnd.choice(['garbage here', '.error "after exit"', 'ldi r99, 1']))
        t.files[path[n]] = lines
    return t, path['main.asm'], tuple(caller)


def witnesses(n, seed):
    ws = fixed()
    rnd = random.Random(seed)
    made = 0
    tries = 0
    while made < n and tries < 20 * n:
        tries += 1
        t, main, caller = gen_tree(rnd)
        try:
            flat = flatten(t, main, caller)
        except (Missing, AssertionError):
            continue
        made += 1
        ws.append(('gen%d' % made, t.job(main, caller), ('same_as', flat)))
    return ws


if __name__ == '__main__':
    for name, job, exp in witnesses(5, 1):
        print('=====', name)
        print(job)
        print('--', exp[0])
        print(exp[1] if len(exp) > 1 else '')
