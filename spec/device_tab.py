"""Re-reads, on every run, the DEVICES table of src/device.rs and the shipped part-definition files includes/*def.inc, and
pairs each table row with the figures its part file declares (C12: 'the capacities enforced are the ones that file declares')."""
import os
import re


def parse_table(repo):
    src = open(os.path.join(repo, 'src', 'device.rs')).read()
    rows = {}
    for m in re.finditer(r'"(\w+)"\s*=>\s*Device\s*\{\s*flash_size:\s*(\w+),\s*ram_start:\s*(\w+),\s*ram_size:\s*(\w+),\s*eeprom_size:\s*(\w+),\s*disable_opts:\s*btreeset!\{([^}]*)\}', src):
        name = m.group(1)
        vals = [int(x, 0) for x in m.group(2, 3, 4, 5)]
        opts = [o.strip() for o in m.group(6).split(',') if o.strip()]
        rows[name] = dict(flash_size=vals[0], ram_start=vals[1], ram_size=vals[2], eeprom_size=vals[3], opts=opts)
    # vacuity guard: every `"Name" => Device {` of the table must have been understood, else the checks built on it are UNDECIDED
    n_expected = len(re.findall(r'"\w+"\s*=>\s*Device\s*\{', src))
    if len(rows) != n_expected or not rows:
        raise ValueError('device table: %d rows found, %d understood (table reformatted? spec/device_tab.py needs to follow)' % (n_expected, len(rows)))
    return rows


def parse_inc(path):
    txt = open(path, errors='replace').read()
    dev = re.search(r'(?m)^\s*\.device\s+(\w+)', txt)
    if not dev:
        return None

    def equ(name):
        m = re.search(r'(?mi)^\s*\.equ\s+%s\s*=\s*(0x[0-9a-fA-F]+|\$[0-9a-fA-F]+|\d+)' % name, txt)
        if not m:
            return None
        v = m.group(1)
        return int(v[1:], 16) if v.startswith('$') else int(v, 0)
    return dict(device=dev.group(1), file=os.path.basename(path), FLASHEND=equ('FLASHEND'), SRAM_START=equ('SRAM_START'),
                SRAM_SIZE=equ('SRAM_SIZE'), RAMEND=equ('RAMEND'), EEPROMEND=equ('EEPROMEND'), E2END=equ('E2END'))


def pairs(repo):
    """-> list of (device, figure name, table value, declared value, file)"""
    rows = parse_table(repo)
    out = []
    incdir = os.path.join(repo, 'includes')
    for fn in sorted(os.listdir(incdir)):
        if not fn.endswith('def.inc'):
            continue
        inc = parse_inc(os.path.join(incdir, fn))
        if not inc or inc['device'] not in rows:
            continue
        r = rows[inc['device']]
        if inc['FLASHEND'] is not None:
            out.append((inc['device'], 'flash_size == FLASHEND + 1', r['flash_size'], inc['FLASHEND'] + 1, fn))
        if inc['SRAM_START'] is not None:
            out.append((inc['device'], 'ram_start == SRAM_START', r['ram_start'], inc['SRAM_START'], fn))
        if inc['SRAM_SIZE'] is not None:
            out.append((inc['device'], 'ram_size == SRAM_SIZE', r['ram_size'], inc['SRAM_SIZE'], fn))
        ee = inc['EEPROMEND'] if inc['EEPROMEND'] is not None else inc['E2END']
        if ee is not None:
            out.append((inc['device'], 'eeprom_size == EEPROMEND + 1 (0 when the part has none)', r['eeprom_size'], 0 if ee == 0 else ee + 1, fn))
    return out


if __name__ == '__main__':
    import sys
    repo = sys.argv[1] if len(sys.argv) > 1 else '/repo'
    rows = parse_table(repo)
    print(len(rows), 'rows')
    ps = pairs(repo)
    print(len(ps), 'figures')
    for p in ps:
        if p[2] != p[3]:
            print('MISMATCH', p)


def gen_verus():
    """one obligation per table row (sizes small enough for the u32 arithmetic of the limit check) and per figure a shipped
    part file declares (table == file); both sides are re-read from the tree by the generator on every run"""
    import os
    repo = os.environ.get('VERIF_REPO', '/repo')
    rows = parse_table(repo)
    out = ['// ===== GENERATED from %s/src/device.rs and %s/includes/*def.inc by spec/device_tab.py =====' % (repo, repo)]
    out.append('pub spec const MEM_MAX: int = 0x2000_0000;')
    for name, r in sorted(rows.items()):
        out.append('proof fn row_%s_small() { assert(%d <= MEM_MAX && %d <= MEM_MAX && %d <= MEM_MAX && %d <= MEM_MAX && %d + %d <= u32::MAX); } // [C12] #row_%s'
                   % (name, r['flash_size'], r['eeprom_size'], r['ram_size'], r['ram_start'], r['ram_start'], r['ram_size'], name))
    out.append('proof fn default_small() { assert(4194304 <= MEM_MAX && 65536 <= MEM_MAX && 8388608 <= MEM_MAX && 0x60 + 8388608 <= u32::MAX); }')
    for dev, what, tv, dv, fn in pairs(repo):
        tag = re.sub(r'\W+', '_', what.split('==')[0].strip())
        out.append('proof fn fig_%s_%s() { assert(%d == %d); } // [C12] %s: device table %s vs %s' % (dev, tag, tv, dv, dev, what, fn))
    out.append('pub const N_ROWS: usize = %d;' % len(rows))
    return '\n'.join(out)
