"""harness list for the EXPRSTEP / CONV Kani slices"""
BINOPS = ['add', 'sub', 'mul', 'div', 'rem', 'and', 'xor', 'or', 'shl', 'shr', 'lt', 'le', 'gt', 'ge', 'eq', 'ne', 'land', 'lor']
UNOPS = ['minus', 'bitnot', 'lognot']
FUNCS = [(0, 'low'), (1, 'high'), (2, 'byte2'), (3, 'byte3'), (4, 'byte4'), (5, 'lwrd'), (6, 'hwrd'), (7, 'exp2')]
SPELL = {'low': ['low', 'LOW', 'Low'], 'high': ['high', 'HIGH'], 'byte2': ['byte2', 'Byte2'], 'byte3': ['byte3', 'BYTE3'], 'byte4': ['byte4'],
         'lwrd': ['lwrd', 'LWRD'], 'hwrd': ['hwrd', 'HwRd'], 'exp2': ['exp2', 'EXP2']}


def step_list(tier='thorough'):
    out = []
    for i, n in enumerate(BINOPS):
        if n in ('div', 'rem'):
            continue
        out.append(('step_bin_%s' % n, 'step_bin(%d)' % i, 'run(a %s b) == operator table, all a, b: i64' % n, 2))
    for i, n in enumerate(UNOPS):
        out.append(('step_un_%s' % n, 'step_un(%d)' % i, 'run(%s a) == operator table, all a: i64' % n, 2))
    for f, n in FUNCS:
        for sp in SPELL[n]:
            out.append(('step_func_%s_%s' % (n, ''.join('u' if c.isupper() else 'l' for c in sp if c.isalpha())), 'step_func(%d, "%s")' % (f, sp),
                        'run(%s(a)) == documented bit range, all a: i64' % sp, 66 if n == 'exp2' else 12))
    return out


def gen_step_harnesses():
    out = []
    for h, call, what, unwind in step_list():
        out.append('#[cfg(kani)] #[kani::proof] #[kani::unwind(%d)]' % unwind)
        out.append('fn %s() { %s; }' % (h, call))
    return '\n'.join(out)


def step_harness_names(tier):
    return [(h, what) for h, call, what, unwind in step_list(tier)]


def conv_harness_names(tier):
    return [('conv_get_byte', 'get_byte: Ok(v mod 256) iff -128..255, all i64'),
            ('conv_get_bit_index', 'get_bit_index: Ok(v) iff 0..7, all i64'),
            ('conv_get_words', 'get_words: LE bytes of v mod 2^16 iff -32768..65535, all i64'),
            ('conv_get_double_words', 'get_double_words: LE bytes of v mod 2^32 iff -2^31..2^32-1, all i64'),
            ('conv_get_quad_words', 'get_quad_words: LE bytes of v mod 2^64, all i64')]
