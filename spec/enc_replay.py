"""Decode a Kani counterexample of an ENC harness into assembler source and replay it on the real crate."""
import os
import re
import struct
import sys

import isa
import isa_gen

sys.path.insert(0, os.path.dirname(os.path.dirname(os.path.abspath(__file__))))
from vfw import kani, replay  # noqa: E402


def _int(bs, signed=False):
    return int.from_bytes(bytes(bs), 'little', signed=signed)


def decode(vals):
    """order of kani::any() calls in enc_leaf_<mn>_<i>: 3 x (kind u8, reg u8, k i64, mode u8, r16 u8), addr u32,
    3 x (defined bool, r u8), avr8l bool"""
    if vals is None or len(vals) < 23:
        return None
    ops = []
    i = 0
    for _ in range(3):
        ops.append(dict(kind=_int(vals[i]), reg=_int(vals[i + 1]), k=_int(vals[i + 2], True), mode=_int(vals[i + 3]), r16=_int(vals[i + 4])))
        i += 5
    addr = _int(vals[i]); i += 1
    alias = []
    for _ in range(3):
        d, r = _int(vals[i]), _int(vals[i + 1])
        alias.append(r if d else None)
        i += 2
    avr8l = bool(_int(vals[i]))
    return dict(ops=ops, addr=addr, alias=alias, avr8l=avr8l)


def const_text(k):
    if k == -(1 << 63):
        return '(-9223372036854775807-1)'
    return str(k) if k >= 0 else '(%d)' % k


def render(mn, sig, cx):
    """-> (source text, oracle operands, note)"""
    lines = []
    if cx['avr8l']:
        lines.append('.device ATtiny20')
    operands_txt, operands_or = [], []
    resolvable = True
    for p, cls in enumerate(sig):
        o = cx['ops'][p]
        if o['kind'] == 0:
            operands_txt.append('r%d' % o['reg'])
            operands_or.append(('reg', o['reg']))
        elif o['kind'] == 1:
            operands_txt.append(const_text(o['k']))
            operands_or.append(('expr', o['k']))
        elif o['kind'] == 2:
            name = 'vfw_alias%d' % p
            operands_txt.append(name)
            if cx['alias'][p] is not None and cls == 'reg':
                lines.append('.def %s = r%d' % (name, cx['alias'][p]))
                operands_or.append(('reg', cx['alias'][p]))
            else:
                operands_or.append(('unresolved',))
        else:
            r = 'XYZ'[o['r16']]
            form = {0: r, 1: r + '+', 2: '-' + r, 3: r + '+q'}[o['mode']]
            operands_txt.append({0: r, 1: r + '+', 2: '-' + r, 3: '%s+%s' % (r, const_text(o['k']))}[o['mode']])
            operands_or.append(('idx', form, o['k']))
    if cx['addr']:
        lines.append('.org %d' % cx['addr'])
    lines.append('%s %s' % (mn, ', '.join(operands_txt)))
    return '\n'.join(lines) + '\n', operands_or


def cex_for(slice_name, failure):
    """called by the driver for a failed ENC harness: obtain concrete values (small address first), replay natively"""
    h = failure.harness
    m = re.match(r'enc_one_(\w+?)_(\d+)$', h)
    if not m:
        return None
    mn, si = m.group(1), int(m.group(2))
    sig = isa_gen.signatures(mn)[si]
    crate = os.path.join(kani.WORK, 'kslice', slice_name)
    cx = None
    for cfg in ('small_addr', None):
        rc, out, dt = kani.run_harness(crate, h, extra_cfg=cfg, playback=True, timeout=600)
        vals = kani.parse_playback(out)
        cx = decode(vals)
        if cx:
            cx['restricted_to_small_address'] = cfg is not None
            break
    if not cx:
        return dict(note='kani reported the failure but printed no concrete playback values')
    src, ors = render(mn, sig, cx)
    expected_words = isa.encode(mn, ors, cx['addr'], cx['avr8l']) if all(o[0] != 'unresolved' for o in ors) else None
    res = dict(values=cx, source=src, expected=('error' if expected_words is None else isa.le_bytes(expected_words).hex()))
    if cx['addr'] > 0x100000:
        res['note'] = 'address too large to replay natively (.org would need %d bytes of padding)' % (2 * cx['addr'])
        return res
    r = replay.run_jobs(['build\n' + src])[0]
    res['job'] = 'build\n' + src
    if r.get('status') == 'ok':
        code = bytes.fromhex(r['code'])
        got = code[2 * cx['addr']:].hex()
        res['observed'] = got
    else:
        res['observed'] = '%s: %s' % (r.get('status'), r.get('err', ''))[:300]
        got = 'error' if r.get('status') == 'err' else r.get('status')
    res['reproduced'] = (got != res['expected'])
    if cx['avr8l'] and r.get('status') == 'err' and 'not allowed for current device' in r.get('err', ''):
        res['reproduced'] = None
        res['note'] = 'the only Avr8l device in the table (ATtiny20) lacks this instruction; the pipeline cannot reach process() with it'
    return res


def witness_from_cex(f):
    """driver hook: turn failure.cex into the witness record of the replay file"""
    c = f.cex or {}
    if 'job' not in c:
        return dict(note=c.get('note', 'no replayable input'), values=c.get('values'))
    return dict(job=c['job'], input=c['job'], observed=c.get('observed'), expected=c.get('expected'),
                reproduced=c.get('reproduced'), note=c.get('note', ''), values=c.get('values'))
