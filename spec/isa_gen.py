"""Generate the loop-free Rust twin of the ISA table (spec/isa.py) and the Kani contract harnesses for unit ENC.

The generated oracle never looks at /repo's encoder: every row becomes a function that checks the operands against
the row's legal sets and scatters the field values into the letter positions of the manual's pattern string.
"""
import isa

# symbolic operand kinds (harness side)
K_REG, K_CONST, K_ALIAS, K_INDEX = 0, 1, 2, 3
R16 = {'X': 0, 'Y': 1, 'Z': 2}

LEGAL_RS = {
    'R5': ('r <= 31', 'r'),
    'R4H': ('r >= 16 && r <= 31', 'r - 16'),
    'R3H': ('r >= 16 && r <= 23', 'r - 16'),
    'RW': ('r <= 30 && r % 2 == 0', 'r / 2'),
    'RP': ('r == 24 || r == 26 || r == 28 || r == 30', '(r - 24) / 2'),
}
LEGAL_EX = {
    'K8': ('k >= -128 && k <= 255', '(k & 0xff)'),
    'K8C': ('k >= -128 && k <= 255', '((!k) & 0xff)'),
    'K6': ('k >= 0 && k <= 63', 'k'),
    'A6': ('k >= 0 && k <= 63', 'k'),
    'A5': ('k >= 0 && k <= 31', 'k'),
    'B3': ('k >= 0 && k <= 7', 'k'),
    'K22': ('k >= 0 && k <= 4194303', 'k'),
    'K16': ('k >= 0 && k <= 65535', 'k'),
    'K7L': ('k >= 0x40 && k <= 0xbf', '((((k >> 5) & 1) << 6) | (((k >> 4) & 1) << 5) | (((k >> 6) & 1) << 4) | (k & 0xf))'),
}
LEGAL_REL = {
    'REL7': ('d >= -64 && d <= 63', '(d & 0x7f)'),
    'REL12': ('d >= -2048 && d <= 2047', '(d & 0xfff)'),
}


def mn_id(mn):
    return isa.MNEMONICS.index(mn)


def variant_of(mn):
    r = [r for r in isa.ROWS if r['mn'] == mn][0]
    v = r['variant']
    return 'Operation::' + v


def scatter_expr(pat, letters_present):
    """Rust expression (u32) for the pattern with field variables f_<letter>"""
    n = len(pat)
    counts = {}
    for ch in pat:
        if ch not in '01':
            counts[ch] = counts.get(ch, 0) + 1
    fixed = 0
    seen = {}
    terms = []
    for i, ch in enumerate(pat):
        pos = n - 1 - i
        if ch == '1':
            fixed |= 1 << pos
        elif ch == '0':
            pass
        else:
            k = seen.get(ch, 0)
            seen[ch] = k + 1
            src = counts[ch] - 1 - k
            var = 'f_d' if ch == 'D' else 'f_%s' % ch
            terms.append('(((%s >> %d) & 1) << %d)' % (var, src, pos))
    return '0x%xu64' % fixed + ''.join(' | ' + t for t in terms)


def gen_row_fn(idx, r):
    out = []
    out.append('// %s %s   %s   [%s]' % (r['mn'], ', '.join(r['ops']), r['pat'], r['core']))
    out.append('fn row_%d(a: &[SOp; 3], n: usize, addr: u32, ctx: &Ctx) -> Option<(u16, Option<u16>)> {' % idx)
    out.append('    if n != %d { return None; }' % len(r['ops']))
    if r['core'] == 'classic':
        out.append('    if ctx.avr8l { return None; }')
    elif r['core'] == 'avr8l':
        out.append('    if !ctx.avr8l { return None; }')
    for pos, (kind, letter) in enumerate(zip(r['ops'], r['letters'])):
        if kind in isa.IDX:
            mode, reg, has_q = isa.IDX[kind]
            out.append('    let (m%d, x%d, q%d) = match ov_idx(&a[%d]) { Some(t) => t, None => return None };' % (pos, pos, pos, pos))
            out.append('    if m%d != %d || x%d != %d { return None; }' % (pos, mode, pos, R16[reg]))
            if has_q:
                out.append('    if !(q%d >= 0 && q%d <= 63) { return None; }' % (pos, pos))
                out.append('    let f_q: u64 = q%d as u64;' % pos)
            continue
        cls = isa.KINDS[kind][0]
        var = 'f_d' if letter == 'dD' else 'f_%s' % letter
        if cls == 'reg':
            legal, val = LEGAL_RS[kind]
            out.append('    let %s: u64 = match ov_reg(&a[%d], %d, ctx) { Some(r) if (%s) => (%s) as u64, _ => return None };' % (var, pos, pos, legal, val))
        elif cls == 'expr':
            legal, val = LEGAL_EX[kind]
            out.append('    let %s: u64 = match ov_expr(&a[%d]) { Some(k) if (%s) => (%s) as u64, _ => return None };' % (var, pos, legal, val))
        else:
            legal, val = LEGAL_REL[kind]
            out.append('    let %s: u64 = match ov_expr(&a[%d]) { Some(k) => { let d: i128 = k as i128 - (addr as i128 + 1); if %s { (%s) as u64 } else { return None } }, None => return None };' % (var, pos, legal, val))
    expr = scatter_expr(r['pat'], None)
    out.append('    let w: u64 = %s;' % expr)
    if r['words'] == 2:
        out.append('    Some((((w >> 16) & 0xffff) as u16, Some((w & 0xffff) as u16)))')
    else:
        out.append('    Some((w as u16, None))')
    out.append('}')
    return '\n'.join(out)


def gen_oracle():
    out = []
    out.append('// ===== GENERATED from spec/isa.py by spec/isa_gen.py: the ISA oracle (independent of the encoder under test) =====')
    out.append('#[derive(Clone, Copy)]')
    out.append('pub struct SOp { pub kind: u8, pub reg: u8, pub k: i64, pub mode: u8, pub r16: u8 }')
    out.append('''
// oracle view of an operand as written: a register (directly or through a .def alias), a constant, a pointer form
fn ov_reg(o: &SOp, pos: usize, ctx: &Ctx) -> Option<u8> {
    match o.kind { 0 => Some(o.reg), 2 => ctx.alias_regs[pos], _ => None }
}
fn ov_expr(o: &SOp) -> Option<i64> {
    match o.kind { 1 => Some(o.k), _ => None }   // an identifier is unresolved here: the harness context binds no symbols
}
fn ov_idx(o: &SOp) -> Option<(u8, u8, i64)> {
    match o.kind { 3 => Some((o.mode, o.r16, o.k)), _ => None }
}
''')
    for i, r in enumerate(isa.ROWS):
        out.append(gen_row_fn(i, r))
    out.append('pub fn oracle(mn: u8, a: &[SOp; 3], n: usize, addr: u32, ctx: &Ctx) -> Option<(u16, Option<u16>)> {')
    out.append('    match mn {')
    for mn in isa.MNEMONICS:
        idxs = [i for i, r in enumerate(isa.ROWS) if r['mn'] == mn]
        body = ''
        for i in idxs:
            body += 'if let Some(w) = row_%d(a, n, addr, ctx) { return Some(w); } ' % i
        out.append('        %d => { %sNone } // %s' % (mn_id(mn), body, mn))
    out.append('        _ => None,')
    out.append('    }')
    out.append('}')
    out.append('pub fn oracle_words(mn: u8, avr8l: bool) -> u32 {')
    out.append('    match mn {')
    for mn in isa.MNEMONICS:
        rows = [r for r in isa.ROWS if r['mn'] == mn]
        ws = sorted(set((r['core'], r['words']) for r in rows))
        if len(set(w for _, w in ws)) == 1:
            out.append('        %d => %d, // %s' % (mn_id(mn), ws[0][1], mn))
        else:
            wc = [w for c, w in ws if c == 'classic'][0]
            wl = [w for c, w in ws if c == 'avr8l'][0]
            out.append('        %d => if avr8l { %d } else { %d }, // %s' % (mn_id(mn), wl, wc, mn))
    out.append('        _ => 0,')
    out.append('    }')
    out.append('}')
    out.append('pub fn mk_op(mn: u8) -> Operation {')
    out.append('    match mn {')
    for mn in isa.MNEMONICS:
        out.append('        %d => %s,' % (mn_id(mn), variant_of(mn)))
    out.append('        _ => Operation::Nop,')
    out.append('    }')
    out.append('}')
    out.append('pub fn mk_reg8(n: u8) -> Reg8 {')
    out.append('    match n {')
    for n in range(32):
        out.append('        %d => Reg8::R%d,' % (n, n))
    out.append('        _ => Reg8::R0,')
    out.append('    }')
    out.append('}')
    out.append('pub const N_MNEMONICS: u8 = %d;' % len(isa.MNEMONICS))
    return '\n'.join(out)


def groups():
    """mnemonics grouped by their operand signature (quick tier: one harness per group, symbolic mnemonic)"""
    g = {}
    for mn in isa.MNEMONICS:
        rows = [r for r in isa.ROWS if r['mn'] == mn]
        sig = tuple(sorted(set(tuple(('IDX' if k in isa.IDX else k) for k in r['ops']) for r in rows)))
        g.setdefault(sig, []).append(mn)
    out = []
    for i, (sig, mns) in enumerate(sorted(g.items(), key=lambda kv: str(kv[0]))):
        import re as _re
        name = 'g%02d_%s' % (i, _re.sub(r'[^a-z0-9]+', '_', '_'.join('x'.join(s) if s else 'none' for s in sig).lower())[:40])
        out.append((name, mns, sig))
    return out


HARNESS_BODY = '''
/// one fully shaped call: the operand *shapes* are fixed by the control-flow path that leads here (so every enum tag is
/// concrete for CBMC), all operand *values* (register numbers, constants, displacements, address, core, aliases) are symbolic
#[cfg(kani)]
fn enc_leaf(mn: u8, a: &[SOp; 3], n: usize, args: Vec<InstructionOps>, addr: u32, ctx: &Ctx) {
    let op = mk_op(mn);
    // ---- the real code
    let got = process(&op, &args, addr, ctx);
    let len = op.info(ctx).len;
    // ---- the contract, from the ISA table
    let want = oracle(mn, a, n, addr, ctx);
    match (&got, &want) {
        (Ok(bytes), Some((w0, w1))) => {
            // C01: exact words, low byte first, exact length
            assert!(bytes.len() == if w1.is_some() { 4 } else { 2 }, "C01 length of the emitted encoding");
            assert!(bytes[0] == (*w0 & 0xff) as u8 && bytes[1] == (*w0 >> 8) as u8, "C01 first instruction word (opcode and operand fields, low byte first)");
            if let Some(w1) = w1 {
                assert!(bytes[2] == (*w1 & 0xff) as u8 && bytes[3] == (*w1 >> 8) as u8, "C01 second instruction word");
            }
            assert!(len == oracle_words(mn, ctx.avr8l), "C01 C02 Operation::info length in words");
            assert!(bytes.len() as u32 == 2 * len, "C02 emitted size equals the size pass 1 accounted for");
        }
        (Err(_), None) => {}
        (Ok(_), None) => { assert!(false, "C04 operands the ISA cannot encode were accepted"); }
        (Err(_), Some(_)) => { assert!(false, "C01 legal operands were rejected"); }
    }
    kani::cover!(got.is_ok(), "some operand tuple is accepted");
    kani::cover!(n == 0 || got.is_err(), "some operand tuple is rejected (instructions with operands)");
}

'''


def classes_of(r):
    return tuple('idx' if k in isa.IDX else ('expr' if isa.KINDS[k][0] in ('expr', 'rel') else 'reg') for k in r['ops'])


def signatures(mn):
    sigs = []
    for r in isa.ROWS:
        if r['mn'] == mn and classes_of(r) not in sigs:
            sigs.append(classes_of(r))
    return sigs


ALLOWED = {'reg': 'K == 0 || K == 2', 'expr': 'K == 1 || K == 2', 'idx': 'K == 3'}


def leaves():
    """one leaf (= one call of process) per mnemonic and ISA operand signature"""
    out = []
    for mn in isa.MNEMONICS:
        for i, sig in enumerate(signatures(mn)):
            out.append((mn, i, sig))
    return out


def gen_harnesses():
    out = [HARNESS_BODY]
    out.append('''
/// the real operand value the grammar would build for what the symbolic operand stands for
#[cfg(kani)]
fn real_operand(o: &SOp, pos: usize) -> InstructionOps {
    match o.kind {
        0 => InstructionOps::R8(mk_reg8(o.reg)),
        1 => InstructionOps::E(Expr::Const(o.k)),
        2 => InstructionOps::E(Expr::Ident(alias_name(pos))),
        _ => match o.mode {
            0 => InstructionOps::Index(IndexOps::None(mk_reg16(o.r16))),
            1 => InstructionOps::Index(IndexOps::PostIncrement(mk_reg16(o.r16))),
            2 => InstructionOps::Index(IndexOps::PreDecrement(mk_reg16(o.r16))),
            _ => InstructionOps::Index(IndexOps::PostIncrementE(mk_reg16(o.r16), Expr::Const(o.k))),
        },
    }
}
''')
    for mn, i, sig in leaves():
        n = len(sig)
        out.append('/// %s with operand classes %s: every value of every operand (registers directly or through any alias binding,' % (mn, list(sig)))
        out.append('/// every i64 constant or an unresolved name, every pointer form), every address, both cores')
        out.append('#[cfg(kani)]')
        out.append('fn enc_leaf_%s_%d() {' % (mn, i))
        out.append('    let a = [sym_operand(), sym_operand(), sym_operand()];')
        for p, c in enumerate(sig):
            out.append('    kani::assume(%s);' % ALLOWED[c].replace('K', 'a[%d].kind' % p))
        out.append('    let addr: u32 = kani::any();')
        out.append('    #[cfg(small_addr)]')
        out.append('    kani::assume(addr <= 500);   // (replay only) fits the smallest flash of the device table')
        out.append('    let ctx = sym_ctx();')
        args = ', '.join('real_operand(&a[%d], %d)' % (p, p) for p in range(n))
        out.append('    enc_leaf(%d, &a, %d, %s, addr, &ctx);' % (mn_id(mn), n, 'vec![%s]' % args if n else 'Vec::new()'))
        out.append('}')
        out.append('#[cfg(kani)] #[kani::proof] #[kani::unwind(6)]')
        out.append('fn enc_one_%s_%d() { enc_leaf_%s_%d(); }' % (mn, i, mn, i))
    return '\n'.join(out)


CHUNK = 4


def chunks():
    ls = sorted(leaves(), key=lambda l: (len(l[2]), str(l[2]), l[0]))
    return [ls[i:i + CHUNK] for i in range(0, len(ls), CHUNK)]


def harness_names(tier):
    return [('enc_one_%s_%d' % (mn, i), 'process == ISA table for all operand values of %s%s' % (mn, list(sig))) for mn, i, sig in leaves()]


def chunk_members(harness):
    """the single-leaf harnesses a chunk harness consists of (used to pinpoint a failure and get a counterexample)"""
    if harness.startswith('enc_chunk_'):
        return ['enc_one_%s_%d' % (m, i) for m, i, _ in chunks()[int(harness[len('enc_chunk_'):])]]
    return [harness]


if __name__ == '__main__':
    print(gen_oracle())
    print(gen_harnesses())


# ------------------------------------------------------------------------------------------------ Verus side
def gen_verus_shape():
    """spec fns arity_ok / class_at / words for unit ENCV, generated from the same ISA table"""
    CL = {'reg': 0, 'expr': 1, 'idx': 2}
    by_variant = {}
    for mn in isa.MNEMONICS:
        v = [r for r in isa.ROWS if r['mn'] == mn][0]['variant']
        by_variant[v] = mn
    out = ['// ===== GENERATED from spec/isa.py: operand count / operand class / length in words per operation =====']
    out.append('pub open spec fn arity_ok(op: Operation, n: int) -> bool {')
    out.append('    match op {')
    for v, mn in sorted(by_variant.items()):
        ns = sorted(set(len(s) for s in signatures(mn)))
        out.append('        Operation::%s => %s, // %s' % (v, ' || '.join('n == %d' % k for k in ns), mn))
    out.append('        Operation::Custom(_) => true,')
    out.append('    }')
    out.append('}')
    out.append('/// operand class the ISA requires at position p: 0 register (or .def alias), 1 constant expression, 2 pointer form')
    out.append('pub open spec fn class_at(op: Operation, p: int) -> int {')
    out.append('    match op {')
    for v, mn in sorted(by_variant.items()):
        sigs = [s for s in signatures(mn) if len(s) > 0]
        if not sigs:
            out.append('        Operation::%s => -1,' % v)
            continue
        assert len(sigs) == 1, (mn, sigs)
        s = sigs[0]
        e = ' else '.join('if p == %d { %d }' % (i, CL[c]) for i, c in enumerate(s)) + ' else { -1 }'
        out.append('        Operation::%s => %s, // %s' % (v, e, mn))
    out.append('        Operation::Custom(_) => -1,')
    out.append('    }')
    out.append('}')
    out.append('pub open spec fn words(op: Operation, avr8l: bool) -> int {')
    out.append('    match op {')
    for v, mn in sorted(by_variant.items()):
        rows = [r for r in isa.ROWS if r['mn'] == mn]
        ws = sorted(set((r['core'], r['words']) for r in rows))
        if len(set(w for _, w in ws)) == 1:
            out.append('        Operation::%s => %d,' % (v, ws[0][1]))
        else:
            wc = [w for c, w in ws if c == 'classic'][0]
            wl = [w for c, w in ws if c == 'avr8l'][0]
            out.append('        Operation::%s => if avr8l { %d } else { %d },' % (v, wl, wc))
    out.append('        Operation::Custom(_) => 0,')
    out.append('    }')
    out.append('}')
    return '\n'.join(out)
