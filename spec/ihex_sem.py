"""Independent Intel HEX reader (executable twin of the `rd` spec fold in contracts/hex.vspec).

Written from the format definition: ':' LL AAAA TT DD.. CC, checksum = two's complement of the byte sum,
type 00 data, 01 end of file, 02 extended segment address (base = value*16), 04 extended linear address
(base = value*65536), 03/05 start addresses (ignored).  Returns (image dict addr->byte, problems list).
"""


def read_hex(text):
    problems = []
    img = {}
    base = 0
    eof = False
    lines = text.split('\n')
    # the writer terminates lines with CRLF and appends one extra CRLF
    for n, raw in enumerate(lines):
        line = raw.rstrip('\r')
        if raw and not raw.endswith('\r') and n != len(lines) - 1:
            problems.append('line %d not CRLF terminated' % (n + 1))
        if line == '':
            continue
        if eof:
            problems.append('line %d: record after end-of-file record' % (n + 1))
        if not line.startswith(':'):
            problems.append('line %d: no start code' % (n + 1))
            continue
        hexpart = line[1:]
        if len(hexpart) % 2 or any(c not in '0123456789ABCDEFabcdef' for c in hexpart):
            problems.append('line %d: not hex' % (n + 1))
            continue
        b = bytes.fromhex(hexpart)
        if len(b) < 5:
            problems.append('line %d: too short' % (n + 1))
            continue
        ll, addr, tt = b[0], (b[1] << 8) | b[2], b[3]
        data = b[4:-1]
        if len(data) != ll:
            problems.append('line %d: length field %d but %d data bytes' % (n + 1, ll, len(data)))
            continue
        if sum(b) & 0xff:
            problems.append('line %d: bad checksum' % (n + 1))
        if tt == 0:
            if addr + ll > 0x10000:
                problems.append('line %d: data record wraps the 64 KiB offset' % (n + 1))
            for j, v in enumerate(data):
                a = base + addr + j
                if a in img:
                    problems.append('line %d: address %#x written twice' % (n + 1, a))
                img[a] = v
        elif tt == 1:
            if ll != 0:
                problems.append('line %d: EOF with data' % (n + 1))
            eof = True
        elif tt == 2:
            if ll != 2:
                problems.append('line %d: bad type-02 length' % (n + 1))
            else:
                base = ((data[0] << 8) | data[1]) * 16
        elif tt == 4:
            if ll != 2:
                problems.append('line %d: bad type-04 length' % (n + 1))
            else:
                base = ((data[0] << 8) | data[1]) << 16
        elif tt in (3, 5):
            pass
        else:
            problems.append('line %d: unknown record type %d' % (n + 1, tt))
    if not eof:
        problems.append('no end-of-file record')
    return img, problems


def check_image(text, image_bytes):
    """problems list (empty = the file reproduces the image exactly)"""
    img, problems = read_hex(text)
    if len(img) != len(image_bytes):
        problems.append('decoded %d bytes, image has %d' % (len(img), len(image_bytes)))
    for a, v in enumerate(image_bytes):
        if img.get(a) != v:
            problems.append('address %#x: file has %r, image has %#x' % (a, img.get(a), v))
            break
    extra = [a for a in img if a >= len(image_bytes)]
    if extra:
        problems.append('bytes outside the image, e.g. at %#x' % min(extra))
    return problems
