"""Oracle for C13: which instructions (and addressing forms) each missing-feature flag of the device table removes.
Written from the property text and the flag documentation, not from Device::check_operation."""
import isa

FLAGS = ['NoMul', 'NoJmp', 'NoXreg', 'NoYreg', 'Tiny1x', 'NoLpm', 'NoLpmX', 'NoElpm', 'NoElpmX', 'NoSpm', 'NoEspm', 'NoMovw',
         'NoBreak', 'NoEicall', 'NoEijmp', 'Avr8l']
# flag -> mnemonics it removes entirely
REMOVES = {
    'NoMul': ['mul', 'muls', 'mulsu', 'fmul', 'fmuls', 'fmulsu'],
    'NoJmp': ['jmp', 'call'],
    'NoMovw': ['movw'],
    'NoBreak': ['break'],
    'NoEijmp': ['eijmp'],
    'NoEicall': ['eicall'],
    'NoLpm': ['lpm'],
    'NoElpm': ['elpm'],
    'NoSpm': ['spm'],
    'Tiny1x': ['adiw', 'sbiw', 'ijmp', 'icall', 'ldd', 'std', 'lds', 'sts', 'push', 'pop'],
    'Avr8l': ['adiw', 'sbiw'],
    'NoEspm': [],          # espm is not an instruction this assembler knows
}
# form-dependent: flag -> (mnemonics, condition on the operands)
#   NoLpmX / NoElpmX: the forms with operands (Rd, Z / Rd, Z+);  NoXreg / NoYreg: any pointer operand using X / Y


def gen_rust():
    out = ['// ===== GENERATED from spec/device_feat.py: the feature-flag oracle =====']
    out.append('pub fn bit_of(o: &DisabledOptions) -> u16 {')
    out.append('    match o {')
    for i, f in enumerate(FLAGS):
        out.append('        DisabledOptions::%s => %d,' % (f, i))
    out.append('    }')
    out.append('}')
    out.append('fn has(flags: u16, bit: u16) -> bool { (flags >> bit) & 1 == 1 }')
    out.append('/// is instruction `mn` (mnemonic id of spec/isa.py) with these operands available on a device with this flag set?')
    out.append('pub fn oracle_allowed(flags: u16, mn: u8, n_args: usize, uses_x: bool, uses_y: bool) -> bool {')
    for f, mns in REMOVES.items():
        if not mns:
            continue
        cond = ' || '.join('mn == %d' % isa.MNEMONICS.index(m) for m in mns)
        out.append('    if has(flags, %d) && (%s) { return false; } // %s removes %s' % (FLAGS.index(f), cond, f, ' '.join(mns)))
    out.append('    if has(flags, %d) && mn == %d && n_args > 0 { return false; } // NoLpmX removes lpm Rd, Z[+]' % (FLAGS.index('NoLpmX'), isa.MNEMONICS.index('lpm')))
    out.append('    if has(flags, %d) && mn == %d && n_args > 0 { return false; } // NoElpmX removes elpm Rd, Z[+]' % (FLAGS.index('NoElpmX'), isa.MNEMONICS.index('elpm')))
    ptr = ' || '.join('mn == %d' % isa.MNEMONICS.index(m) for m in ('ld', 'st', 'ldd', 'std'))
    out.append('    if has(flags, %d) && (%s) && uses_x { return false; } // NoXreg removes the X pointer forms' % (FLAGS.index('NoXreg'), ptr))
    out.append('    if has(flags, %d) && (%s) && uses_y { return false; } // NoYreg removes the Y pointer forms' % (FLAGS.index('NoYreg'), ptr))
    out.append('    true')
    out.append('}')
    import isa_gen
    out.append('pub fn mk_op(mn: u8) -> Operation {')
    out.append('    match mn {')
    for mn in isa.MNEMONICS:
        out.append('        %d => %s,' % (isa.MNEMONICS.index(mn), isa_gen.variant_of(mn)))
    out.append('        _ => Operation::Nop,')
    out.append('    }')
    out.append('}')
    out.append('pub const N_MNEMONICS: u8 = %d;' % len(isa.MNEMONICS))
    return '\n'.join(out)


def allowed_py(opts, mn, n_args, uses_x=False, uses_y=False):
    for f in opts:
        if mn in REMOVES.get(f, []):
            return False
    if 'NoLpmX' in opts and mn == 'lpm' and n_args > 0:
        return False
    if 'NoElpmX' in opts and mn == 'elpm' and n_args > 0:
        return False
    if mn in ('ld', 'st', 'ldd', 'std'):
        if 'NoXreg' in opts and uses_x:
            return False
        if 'NoYreg' in opts and uses_y:
            return False
    return True


def harness_names(tier):
    return [('dev_gate', 'check_operation && check_operands == flag oracle for every 16-bit flag set x every operation x every operand form'),
            ('dev_new', 'Device::new(0) is the documented default, Device::new(n) keeps n')]
