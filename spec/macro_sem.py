"""Witness generator for C09: programs with macros and their hand expansion (textual substitution of @n by the argument, an
expression argument wrapped in parentheses so that its value is what the caller wrote)."""
import random

REGS = ['r16', 'r17', 'r20', 'R31']
EXPRS = ['5', '1+2', '(1+2)*3', '2*3+1', '10-4-3', '1<<3|1', '0x10 & 0x1f', '-(3)', '~0 & 7', '100/7%5', 'CONST+1', '(CONST<<1)+1', 'low(0x1234)', '2 > 1',
         '100/(2*5)', '7-(2*3)', '2*(3+4)', '~(2*3) & 15', '!(0*5)', '64>>(1+1)', '1-(2-3)', '8/(4/2)', '(1|2)&3', '1<<(1<<1)', '9%(2*2)', '-(2+3)+10']
IDX = ['Y+3', 'Z+10', 'Y+0']

BODIES = [
    (['reg', 'expr'], [' ldi @0, @1']),
    (['reg', 'expr'], [' ldi @0, low(@1)', ' .db @1, 0']),
    (['reg', 'expr'], [' .if @1 > 6', ' ldi @0, 1', ' .else', ' ldi @0, 2', ' .endif']),
    (['reg', 'idx'], [' ldd @0, @1', ' std @1, @0']),
    (['expr', 'expr'], [' .dw @0 * @1, @0 - @1']),
    (['reg', 'expr'], [' INNER @0, @1 + 1', ' subi @0, @1']),
    (['expr'], [' .dseg', ' .byte 2', ' .cseg', ' .db @0, 1']),
    (['expr'], [' .db @0, 2', ' .dseg', ' .byte 3', ' .cseg']),
    (['expr'], [' .eseg', ' .db @0', ' .cseg']),
    ([], [' nop', ' ret']),
    # every argument count up to the ten parameters @0..@9
    (['expr'] * 3, [' .db @0, @1', ' .db @2, @0']),
    (['reg', 'reg', 'expr', 'expr', 'expr'], [' ldi @0, @2', ' ldi @1, @3', ' .dw @4']),
    (['expr'] * 7, [' .db @0, @1, @2, @3', ' .db @4, @5, @6, 0']),
    (['expr'] * 9, [' .db @8, @7, @6, @5', ' .db @4, @3, @2, @1', ' .dw @0']),
    (['reg'] + ['expr'] * 9, [' ldi @0, @9', ' .db @1, @2, @3, @4', ' .db @5, @6, @7, @8']),
    (['expr'] * 10, [' .dw @9, @0', ' .db @1, @2, @3, @4, @5, @6, @7, @8']),
]


def arg_text(rnd, kind):
    if kind == 'reg':
        return rnd.choice(REGS)
    if kind == 'idx':
        return rnd.choice(IDX)
    return rnd.choice(EXPRS)


def subst(line, args, kinds):
    for i in range(len(args) - 1, -1, -1):
        rep = '(%s)' % args[i] if kinds[i] == 'expr' else args[i]
        line = line.replace('@%d' % i, rep)
    return line


def expand(lines, macros):
    """textual hand expansion (macro names case-insensitive), to a fixed point"""
    out = []
    for ln in lines:
        head = ln.strip().split(' ', 1)
        name = head[0].lower()
        if name in macros:
            kinds, body = macros[name]
            args = [a.strip() for a in _split(head[1])] if len(head) > 1 and head[1].strip() else []
            out += expand([subst(b, args, kinds) for b in body], macros)
        else:
            out.append(ln)
    return out


def _split(s):
    parts, depth, cur = [], 0, ''
    for ch in s:
        if ch == '(':
            depth += 1
        elif ch == ')':
            depth -= 1
        if ch == ',' and depth == 0:
            parts.append(cur)
            cur = ''
        else:
            cur += ch
    parts.append(cur)
    return parts


def witnesses(n, seed):
    rnd = random.Random(seed)
    out = []
    for _ in range(n):
        macros = {'inner': (['reg', 'expr'], [' cpi @0, @1'])}
        defs = ['.macro inner', ' cpi @0, @1', '.endm']
        names = []
        for k in range(rnd.randint(1, 3)):
            kinds, body = rnd.choice(BODIES)
            nm = 'Mac%d' % k if rnd.random() < 0.5 else 'mac%d' % k
            macros[nm.lower()] = (kinds, body)
            names.append((nm, kinds))
            defs += ['.macro %s' % nm] + body + [rnd.choice(['.endm', '.endmacro'])]
        main = ['.equ CONST = 3']
        calls = []
        for _c in range(rnd.randint(1, 4)):
            nm, kinds = rnd.choice(names)
            spelled = rnd.choice([nm, nm.upper(), nm.lower()])
            calls.append(' %s %s' % (spelled, ', '.join(arg_text(rnd, k) for k in kinds)))
            if rnd.random() < 0.4:
                calls.append(' nop')
        # a call as the very first item after an origin / a segment switch (a vector table built from a macro)
        if rnd.random() < 0.4:
            pre = rnd.choice([[' nop', '.org 0x%x' % rnd.randint(4, 40)], ['.org 0x%x' % rnd.randint(1, 40)],
                              [' nop', '.dseg', 'v: .byte 1', '.cseg', '.org 0x%x' % rnd.randint(8, 40)], ['.eseg', '.db 1', '.cseg']])
            calls = pre + calls
        # definitions before or after the calls
        if rnd.random() < 0.5:
            src_lines = main + defs + calls
        else:
            src_lines = main + calls + defs
        flat = main + expand(calls, macros)
        out.append(('\n'.join(src_lines) + '\n', '\n'.join(flat) + '\n'))
    return out


OPS = ['||', '&&', '|', '^', '&', '==', '!=', '<', '<=', '>', '>=', '<<', '>>', '+', '-', '*', '/', '%']


def grouping_witnesses(n, seed):
    """every ordered operator pair with the parentheses that override the default grouping, passed as a macro argument and
    multiplied / subtracted inside the body: `m a op1 (b op2 c)` and `m (a op1 b) op2 c`  vs the hand expansion"""
    rnd = random.Random(seed)
    cases = []
    for o1 in OPS:
        for o2 in OPS:
            for (a, b, c) in ((7, 3, 2),):
                cases.append('%d %s (%d %s %d)' % (a, o1, b, o2, c))
                cases.append('(%d %s %d) %s %d' % (a, o1, b, o2, c))
    for u in ['-', '~', '!']:
        for o in OPS:
            cases.append('%s(5 %s 2)' % (u, o))
    if n < len(cases):
        cases = rnd.sample(cases, n)
    out = []
    for arg in cases:
        src = '.macro gm\n .dq 3 * @0 - 1, 100 - @0\n.endm\n gm %s\n' % arg
        flat = ' .dq 3 * (%s) - 1, 100 - (%s)\n' % (arg, arg)
        out.append((src, flat))
    return out
