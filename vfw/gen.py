"""Sidecar (.vspec / .kspec) reader and unit generator.

A sidecar is a list of sections introduced by `=== <kind> ...` lines:

    === text                                   verbatim verifier text (prelude, spec fns, lemmas, harnesses)
    === fn <repo-file> <name> [impl=<regex>]   extract one function from /repo, rewrite, inject contract
        rules: R1 R3 ...                       rewrite rules of vfw/rules.py, in order
        sub: <ID> /regex/ => repl              unit-specific logged textual rewrite on the whole item
        sigsub: /regex/ => repl                rewrite on the signature only
        ret: <name>                            name the return value:  -> T   becomes   -> (name: T)
        attrs: <text>                          attribute line(s) put in front of the fn
        spec:                                  indented block: requires/ensures/decreases put between signature and body
        loop <n>:                              indented block: invariant/decreases put on the n-th loop header (source order)
        loopsub <n>: /regex/ => repl           rewrite of the n-th loop header (e.g. naming the ghost iterator, R12)
        params: <names>                        the parameter names the contract was written with, in signature order (without self): if the
                                               code renames a parameter the contract text follows (a rename is not a reason to be undecided)
        arm: <regex>                           R19: lift ONE match arm `<pattern matching regex> => { BLOCK }` of the function into a function
        armfn: <fn header>                     of its own: header as given (the enclosing bindings the arm uses become parameters),
        armtail: <expr>                        body = BLOCK verbatim followed by <expr> (what the code after the match evaluates to)
    === item <kind> <repo-file> <name>         extract enum/struct verbatim (kind = enum|struct)
        rules: R7 [keep=Clone,Copy]
        sub: ...
    === impl <repo-file> <header-regex>        open the impl block header verbatim; following fn sections with
                                               impl=<same regex> are emitted inside; closed by `=== endimpl`
    === endimpl

Nothing but the listed rules may change extracted text.  Every application is logged.
"""
import os
import re
import textwrap
from . import rules as R
from .rsitems import Source, mask, match_brace, loop_headers, ScanError


class GenError(Exception):
    """anchor lost / rule failed / malformed sidecar -> the check is UNDECIDED (exit 2), never a violation"""


class Section:
    def __init__(self, kind, args, lineno):
        self.kind, self.args, self.lineno = kind, args, lineno
        self.lines = []       # raw body lines (text sections) or option lines
        self.opts = {}        # parsed options for fn/item sections


def parse_sidecar(path):
    secs = []
    cur = None
    lines_in = []
    for line in open(path).read().split('\n'):
        # `=== splice <file>`: the sections of another sidecar (up to its `=== end` / end of file) stand here -- units that share a prelude
        # and a set of functions under contract state them once
        if line.startswith('=== splice '):
            inc = os.path.join(os.path.dirname(path), line.split()[2])
            for l2 in open(inc).read().split('\n'):
                if l2.split() == ['===', 'end']:
                    break
                if not l2.startswith('#!'):
                    lines_in.append(l2)
        else:
            lines_in.append(line)
    for ln, line in enumerate(lines_in, 1):
        if line.startswith('==='):
            parts = line[3:].split()
            if not parts:
                raise GenError('%s:%d empty section header' % (path, ln))
            cur = Section(parts[0], parts[1:], ln)
            secs.append(cur)
        elif cur is not None:
            cur.lines.append(line)
        elif line.strip() and not line.startswith('#!'):
            raise GenError('%s:%d text before first section' % (path, ln))
    for s in secs:
        if s.kind in ('fn', 'item'):
            _parse_opts(s, path)
    return secs


_SUB_RE = re.compile(r'^/(.*)/\s*=>\s?(.*)$')


def _parse_sub(txt, path, ln):
    m = _SUB_RE.match(txt.strip())
    if not m:
        raise GenError('%s:%d bad substitution %r' % (path, ln, txt))
    return m.group(1), m.group(2)


def _parse_opts(sec, path):
    o = {'rules': [], 'subs': [], 'sigsubs': [], 'ret': None, 'attrs': [], 'spec': [], 'loops': {}, 'loopsubs': {}, 'loopiters': {},
         'keep': None, 'impl': None, 'arm': None, 'armfn': None, 'armtail': 'Ok(())', 'params': None}
    for a in sec.args[2:] if sec.kind == 'fn' else sec.args[3:]:
        if a.startswith('impl='):
            o['impl'] = a[5:]
    block = None
    for i, line in enumerate(sec.lines):
        ln = sec.lineno + 1 + i
        if not line.strip():
            if block is not None:
                block.append((ln, ''))
            continue
        if line[0] in ' \t' and block is not None:
            block.append((ln, line))
            continue
        block = None
        key, _, val = line.partition(':')
        key, val = key.strip(), val.strip()
        if key == 'rules':
            for r in val.split():
                if r.startswith('keep='):
                    o['keep'] = r[5:].replace(',', ', ')
                else:
                    o['rules'].append(r)
        elif key == 'sub':
            rid, _, rest = val.partition(' ')
            o['subs'].append((rid,) + _parse_sub(rest, path, ln))
        elif key == 'sigsub':
            o['sigsubs'].append(_parse_sub(val, path, ln))
        elif key == 'ret':
            o['ret'] = val
        elif key == 'params':
            o['params'] = val.split()
        elif key in ('arm', 'armfn', 'armtail'):
            o[key] = val
        elif key == 'attrs':
            o['attrs'].append(val)
        elif key == 'spec':
            block = o['spec']
        elif key.startswith('loopiter'):
            n = int(key.split()[1])
            o['loopiters'][n] = val
        elif key.startswith('loopsub'):
            n = int(key.split()[1])
            o['loopsubs'].setdefault(n, []).append(_parse_sub(val, path, ln))
        elif key.startswith('loop'):
            n = int(key.split()[1])
            block = o['loops'].setdefault(n, [])
        elif line.startswith('#'):
            continue
        else:
            raise GenError('%s:%d unknown option %r' % (path, ln, key))
    sec.opts = o


def _dedent_block(block):
    txt = '\n'.join(l for _, l in block)
    return textwrap.dedent(txt).rstrip('\n')


class Generated:
    def __init__(self):
        self.lines = []      # text lines
        self.origin = []     # per line: dict(kind=..., fn=..., file=..., line=..., clause=...)
        self.rewrites = []   # (fn, rule, snippet)
        self.functions = []  # dicts: name, file, line_start, line_end
        self.clauses = 0
        self.auto_consts = {}  # name -> (text, file, line): constants referred to by extracted functions (rule RV)

    def emit(self, text, **origin):
        for l in text.split('\n'):
            self.lines.append(l)
            self.origin.append(dict(origin))

    def text(self):
        return '\n'.join(self.lines) + '\n'


def _join_chains(text, log):
    """R20: a method chain / argument list that rustfmt wrapped over several lines is joined (`x\n    .f()` -> `x.f()`,
    `f(\n    a,\n    b,\n)` stays): whitespace only, outside comments and strings; lets the textual rules see one form"""
    msk = mask(text)
    out, last, n = [], 0, 0
    for m in re.finditer(r'\n[ \t]*(?=\.[A-Za-z_])', msk):
        # do not join when the previous line ends in a comment
        ls = text.rfind('\n', 0, m.start()) + 1
        if '//' in text[ls:m.start()] and '//' not in msk[ls:m.start()]:
            continue
        out.append(text[last:m.start()])
        last = m.end()
        n += 1
    out.append(text[last:])
    if n:
        log.append(('R20', '%d wrapped method-chain line(s) joined (whitespace only)' % n))
    return ''.join(out)


def _apply_rules(text, opts, log, what):
    if opts['subs']:
        text = _join_chains(text, log)
    for r in opts['rules']:
        if r == 'R7':
            text = R.r7_derives(text, log, opts['keep'])
        elif r in R.RULES:
            text = R.RULES[r](text, log)
        else:
            raise GenError('unknown rule %s for %s' % (r, what))
    for rid, pat, rep in opts['subs']:
        # whitespace-insensitive matching: a blank in the pattern stands for any white space, and an argument list / assignment may
        # have been wrapped after `(` or `=` (patterns are written without character classes that contain blanks)
        flex = re.sub(r'(?<!\\) ', r'\\s+', pat)
        flex = flex.replace('\\(', '\\(\\s*')
        try:
            new, n = re.subn(flex, rep.replace('\\n', '\n'), text)
        except re.error:
            new, n = re.subn(pat, rep.replace('\\n', '\n'), text)
        # a chain that does not occur needs no translation: if the code was edited so that the pattern no longer matches, the
        # untranslated text either still means the same to the verifier or is rejected by it (UNDECIDED) -- never a wrong verdict
        log.append((rid, '%d x /%s/ => %s' % (n, pat, rep)))
        text = new
    return text


def _param_names(header):
    """names of the parameters of a fn header, in order, without self"""
    hm = mask(header)
    par = hm.find('(', hm.find('fn '))
    end = match_brace(hm, par)
    inner = header[par + 1:end]
    parts, depth, last = [], 0, 0
    im = mask(inner)
    for i, ch in enumerate(im):
        if ch in '([{<':
            depth += 1
        elif ch in ')]}>' and not (ch == '>' and i > 0 and im[i - 1] == '-'):
            depth -= 1
        elif ch == ',' and depth == 0:
            parts.append(inner[last:i])
            last = i + 1
    parts.append(inner[last:])
    names = []
    for p in parts:
        p = p.strip()
        if not p or re.match(r'(&\s*(\'\w+\s+)?)?(mut\s+)?self\b', p):
            continue
        m = re.match(r'(?:mut\s+)?([A-Za-z_]\w*)\s*:', p)
        names.append(m.group(1) if m else '?')
    return names


def _rename_words(text, renames):
    for a, b in renames.items():
        text = re.sub(r'(?<![A-Za-z0-9_.])%s(?![A-Za-z0-9_])' % re.escape(a), b, text)
    return text


def _keep_lines(old, new):
    """pad `new` with newlines so it spans as many lines as `old` (keeps the line map of the fn body)"""
    d = old.count('\n') - new.count('\n')
    return new + ('\n' * d if d > 0 else '')


def gen_fn(g, repo, sec, mode):
    relfile, name = sec.args[0], sec.args[1]
    o = sec.opts
    src = Source(os.path.join(repo, relfile))
    within = None
    if o['impl']:
        try:
            s, b, e = src.find_impl(o['impl'])
        except ScanError as ex:
            raise GenError(str(ex))
        within = (b, e)
    try:
        start, brace, end = src.find_fn(name, within)
    except ScanError as ex:
        raise GenError(str(ex))
    text = src.text[start:end]
    line0 = src.line_of(start)
    what = '%s::%s' % (relfile, name)
    log = []
    if o['arm']:
        # R19: one match arm lifted into a function of its own
        if not o['armfn']:
            raise GenError('%s: arm: without armfn:' % what)
        am = mask(text)
        found = list(re.finditer(r'(?m)^[ \t]*(?:%s)\s*=>\s*\{' % o['arm'], am))
        if len(found) != 1:
            raise GenError('%s: arm /%s/ matched %d times (anchor lost)' % (what, o['arm'], len(found)))
        op = found[0].end() - 1
        cl = match_brace(am, op)
        inner = textwrap.dedent(text[op + 1:cl].strip('\n'))
        line0 = line0 + text[:op].count('\n')
        fm = re.search(r'fn\s+(\w+)', o['armfn'])
        if not fm:
            raise GenError('%s: armfn: has no fn name' % what)
        log.append(('R19', 'match arm /%s/ of %s lifted into `%s` (other arms dropped; falls through to `%s`)' % (o['arm'], name, fm.group(1), o['armtail'])))
        name = fm.group(1)
        what = '%s::%s' % (relfile, name)
        text = '%s {\n%s\n    %s\n}' % (o['armfn'], textwrap.indent(inner, '    '), o['armtail'])
    # line-preserving rewrites first (R1, R2), then the rest
    text = textwrap.dedent(text)
    text = _apply_rules(text, o, log, what)
    # RV: private constants of the same file that the function refers to are extracted with it (emitted at module level at the end)
    for cname in sorted(set(re.findall(r'(?<![A-Za-z0-9_:.])([A-Z][A-Z0-9_]{2,})(?![A-Za-z0-9_(!])', mask(text)))):
        if cname in g.auto_consts:
            continue
        try:
            cs, ce = src.find_block_item('const', cname)
        except ScanError:
            continue
        ctext = textwrap.dedent(src.text[cs:ce]).strip()
        ctext = re.sub(r'^(\s*(?:///[^\n]*\n\s*|#\[[^\n]*\n\s*)*)(pub(\([a-z]+\))?\s+)?const\b', r'\1pub const', ctext, count=1)
        g.auto_consts[cname] = (ctext, relfile, src.line_of(cs))
    # split header/body
    msk = mask(text)
    par = msk.find('(', msk.find('fn '))
    par_end = match_brace(msk, par)
    b, _d = -1, 0
    for _k in range(par_end + 1, len(msk)):
        if msk[_k] in '([':
            _d += 1
        elif msk[_k] in ')]':
            _d -= 1
        elif msk[_k] == '{' and _d == 0:
            b = _k
            break
    header, body = text[:b].rstrip(), text[b:]
    for pat, rep in o['sigsubs']:
        header, n = re.subn(pat, rep, header)
        if n == 0:
            raise GenError('%s: sigsub /%s/ matched nothing' % (what, pat))
        log.append(('SIG', '/%s/ => %s' % (pat, rep)))
    renames = {}
    if o['params'] is not None and not o['arm']:
        actual = _param_names(header)
        if len(actual) == len(o['params']):
            renames = dict((a, b) for a, b in zip(o['params'], actual) if a != b)
            if renames:
                log.append(('RP', 'parameters renamed in the code, contract text follows: %s' % ', '.join('%s -> %s' % kv for kv in renames.items())))
    if o['ret'] and mode == 'verus':
        hm = mask(header)
        arrow = hm.rfind('->')
        if arrow < 0 or arrow < hm.rfind(')') - 0 and hm.rfind(')') > arrow:
            # no return type: unit
            if arrow < 0:
                raise GenError('%s: ret: given but fn returns ()' % what)
        header = header[:arrow] + '-> (%s: %s)' % (o['ret'], header[arrow + 2:].strip())
    # loops
    loops = loop_headers(body)
    inserts = []  # (pos_in_body, text, origin)
    if mode == 'verus':
        for n, block in o['loops'].items():
            if n < 1 or n > len(loops):
                raise GenError('%s: loop %d not found (fn has %d loops): sidecar invariant lost its anchor' % (what, n, len(loops)))
        for n, subs in list(o['loopsubs'].items()) + list(o['loopiters'].items()):
            if n < 1 or n > len(loops):
                raise GenError('%s: loopsub/loopiter %d: no such loop' % (what, n))
    # apply from the last loop to the first so positions stay valid
    pieces = []
    tail_pos = len(body)
    body_chunks = []
    for idx in range(len(loops), 0, -1):
        kw_start, br, kw = loops[idx - 1]
        hdr = body[kw_start:br]
        if mode == 'verus':
            if idx in o['loopiters']:
                # R12: name the ghost iterator: `for PAT in EXPR` -> `for PAT in NAME: EXPR` (formatting-insensitive)
                hm = mask(hdr)
                depth, pos_in = 0, -1
                for k in range(len(hm)):
                    ch = hm[k]
                    if ch in '([{':
                        depth += 1
                    elif ch in ')]}':
                        depth -= 1
                    elif depth == 0 and hm[k:k + 2] == 'in' and (k == 0 or not (hm[k - 1].isalnum() or hm[k - 1] == '_')) and (k + 2 >= len(hm) or not (hm[k + 2].isalnum() or hm[k + 2] == '_')) and k > 3:
                        pos_in = k
                        break
                if kw != 'for' or pos_in < 0:
                    raise GenError('%s: loopiter %d: loop %d is not a `for .. in ..` loop' % (what, idx, idx))
                hdr = hdr[:pos_in + 2] + ' ' + o['loopiters'][idx] + ':' + hdr[pos_in + 2:]
                log.append(('R12', 'loop %d: ghost iterator named %s' % (idx, o['loopiters'][idx])))
            for pat, rep in o['loopsubs'].get(idx, []):
                hdr2, n = re.subn(pat, rep, hdr)
                if n == 0:
                    raise GenError('%s: loopsub %d /%s/ matched nothing' % (what, idx, pat))
                log.append(('R12', 'loop %d header: /%s/ => %s' % (idx, pat, rep)))
                hdr = hdr2
            inv = _rename_words(_dedent_block(o['loops'][idx]), renames) if idx in o['loops'] else ''
        else:
            inv = ''
        body_chunks.append(('code', body[br:tail_pos]))
        if inv:
            body_chunks.append(('loop%d' % idx, '\n' + textwrap.indent(inv, '        ') + '\n    '))
        body_chunks.append(('code', hdr.rstrip() + ' ' if inv else hdr))
        tail_pos = kw_start
    body_chunks.append(('code', body[:tail_pos]))
    body_chunks.reverse()
    # emit
    fn_line_start = len(g.lines) + 1
    for a in o['attrs']:
        if mode == 'verus' or not a.startswith('#[verifier'):
            g.emit(a, kind='attr', fn=name)
    g.emit(header, kind='sig', fn=name, file=relfile, line=line0)
    if mode == 'verus' and o['spec']:
        spec = _rename_words(_dedent_block(o['spec']), renames)
        for l in spec.split('\n'):
            g.emit('    ' + l, kind='spec', fn=name, clause=l.strip())
            if l.strip() and not l.strip().startswith('//') and l.strip() not in ('requires', 'ensures', 'decreases', 'invariant'):
                g.clauses += 1
    # body: stitch chunks; a generated line is a 'loopinv' line when all its non-blank text comes from a loop block
    src_line = line0 + text[:b].count('\n')
    full, kinds = '', []
    for kind, chunk in body_chunks:
        full += chunk
        kinds.extend([kind] * len(chunk))
    pos = 0
    orig_line = src_line
    for l in full.split('\n'):
        ks = set(kinds[pos + i] for i, ch in enumerate(l) if not ch.isspace())
        pos += len(l) + 1
        is_inv = bool(ks) and all(k.startswith('loop') for k in ks)
        if is_inv:
            st = l.strip()
            g.emit(l, kind='loopinv', fn=name, file=relfile, line=orig_line, clause=st, loop=sorted(ks)[0])
            if st and not st.startswith('//') and st not in ('invariant', 'decreases', 'invariant_except_break', 'ensures'):
                g.clauses += 1
        else:
            g.emit(l, kind='body', fn=name, file=relfile, line=orig_line)
            orig_line += 1
    g.functions.append(dict(name=name, file=relfile, line=line0, gen_start=fn_line_start, gen_end=len(g.lines),
                            impl=o['impl']))
    for rid, snip in log:
        g.rewrites.append(dict(fn=what, rule=rid, what=snip))


def gen_item(g, repo, sec, mode):
    kind, relfile, name = sec.args[0], sec.args[1], sec.args[2]
    src = Source(os.path.join(repo, relfile))
    try:
        if kind == 'static':
            s, e = src.find_static(name)
        else:
            s, e = src.find_block_item(kind, name)
    except ScanError as ex:
        raise GenError(str(ex))
    text = textwrap.dedent(src.text[s:e])
    log = []
    text = _apply_rules(text, sec.opts, log, '%s::%s' % (relfile, name))
    g.emit(text, kind='item', fn=name, file=relfile, line=src.line_of(s))
    for rid, snip in log:
        g.rewrites.append(dict(fn='%s::%s' % (relfile, name), rule=rid, what=snip))


def gen_impl_open(g, repo, sec):
    relfile, rx = sec.args[0], ' '.join(sec.args[1:])
    src = Source(os.path.join(repo, relfile))
    try:
        s, b, e = src.find_impl(rx)
    except ScanError as ex:
        raise GenError(str(ex))
    g.emit(src.text[s:b + 1].strip(), kind='impl', fn=rx, file=relfile, line=src.line_of(s))


def generate(sidecar, repo, mode):
    """mode: 'verus' -> wraps in verus!{}, injects contracts; 'kani' -> plain Rust, no injection"""
    secs = parse_sidecar(sidecar)
    g = Generated()
    if mode == 'verus':
        g.emit('// GENERATED by vfw from %s and %s -- do not edit' % (os.path.basename(sidecar), repo), kind='gen')
        g.emit('#![allow(unused_imports, unused_variables, unused_mut, dead_code, unused_assignments, unreachable_patterns, unused_parens, unreachable_code)]', kind='gen')
        g.emit('use vstd::prelude::*;', kind='gen')
        g.emit('verus! {', kind='gen')
    for s in secs:
        if s.kind == 'text':
            body = '\n'.join(s.lines)
            for l in body.split('\n'):
                g.emit(l, kind='text', sidecar_line=None)
                st = l.strip()
                if mode == 'verus' and st and not st.startswith('//') and re.match(r'^(requires|ensures|invariant|decreases)\b', st):
                    g.clauses += 1
        elif s.kind == 'fn':
            gen_fn(g, repo, s, mode)
        elif s.kind == 'item':
            gen_item(g, repo, s, mode)
        elif s.kind == 'impl':
            gen_impl_open(g, repo, s)
        elif s.kind == 'endimpl':
            g.emit('}', kind='impl')
        elif s.kind == 'include':
            # shared prelude text: `=== include <file under contracts/>`
            inc = os.path.join(os.path.dirname(sidecar), s.args[0])
            body = open(inc).read()
            for l in body.rstrip('\n').split('\n'):
                g.emit(l, kind='text')
                st = l.strip()
                if mode == 'verus' and st and not st.startswith('//') and re.match(r'^(requires|ensures|invariant|decreases)\b', st):
                    g.clauses += 1
        elif s.kind == 'gen':
            # text produced by a generator under /verif/spec (e.g. the ISA oracle): `=== gen <module> <function>`
            import importlib, sys
            sp = os.path.join(os.path.dirname(os.path.dirname(os.path.abspath(__file__))), 'spec')
            if sp not in sys.path:
                sys.path.insert(0, sp)
            mod = importlib.import_module(s.args[0])
            g.emit(getattr(mod, s.args[1])(), kind='text')
        elif s.kind == 'end':
            break
        else:
            raise GenError('%s:%d unknown section kind %r' % (sidecar, s.lineno, s.kind))
    # RV: constants the extracted functions refer to and that no section defines
    defined = set(re.findall(r'(?m)^\s*(?:pub(?:\([a-z]+\))?\s+)?(?:spec\s+|exec\s+)?const\s+([A-Z][A-Z0-9_]*)', '\n'.join(g.lines)))
    for cname, (ctext, cfile, cline) in sorted(g.auto_consts.items()):
        if cname in defined:
            continue
        g.emit(ctext, kind='item', fn=cname, file=cfile, line=cline)
        g.rewrites.append(dict(fn='%s::%s' % (cfile, cname), rule='RV', what='constant referred to by an extracted function: extracted, made pub'))
    if mode == 'verus':
        g.emit('proof fn vfw_sentinel_must_fail() { assert(false); }', kind='sentinel')
        g.emit('} // verus!', kind='gen')
        g.emit('fn main() {}', kind='gen')
    return g
