"""Build the native replay tool against /repo's current working tree and run concrete inputs through it."""
import json
import os
import shutil
import subprocess
import tempfile
import time

VERIF = os.path.dirname(os.path.dirname(os.path.abspath(__file__)))
WORK = os.environ.get('VERIF_WORK') or os.path.join(VERIF, '.work')   # (VERIF_WORK / VERIF_REPO: scratch experiments only)
REPO = os.environ.get('VERIF_REPO', '/repo')

_built = None


class ReplayBuildError(Exception):
    pass


def build():
    """cargo build of /verif/replay (path dependency on /repo) -> path of the binary.  Offline."""
    global _built
    if _built:
        return _built
    crate = os.path.join(VERIF, 'replay')
    if REPO != '/repo':
        # scratch experiment against a copy of the repository: a copy of the crate whose path dependency points at that copy
        crate2 = os.path.join(WORK, 'replay-crate')
        shutil.rmtree(crate2, ignore_errors=True)
        shutil.copytree(crate, crate2, ignore=shutil.ignore_patterns('Cargo.lock', 'target'))
        t = open(os.path.join(crate2, 'Cargo.toml')).read().replace('path = "/repo"', 'path = "%s"' % REPO)
        open(os.path.join(crate2, 'Cargo.toml'), 'w').write(t)
        crate = crate2
    shutil.copyfile(os.path.join(REPO, 'Cargo.lock'), os.path.join(crate, 'Cargo.lock'))
    env = dict(os.environ, CARGO_NET_OFFLINE='true', CARGO_TARGET_DIR=os.path.join(WORK, 'replay-target'))
    p = subprocess.run(['cargo', 'build', '--offline', '--quiet'], cwd=crate, env=env, capture_output=True, text=True)
    if p.returncode != 0:
        raise ReplayBuildError(p.stderr[-4000:])
    _built = os.path.join(WORK, 'replay-target', 'debug', 'vreplay')
    return _built


def _run_chunk(exe, jobs, timeout_per_job):
    """one vreplay process over one job directory; a job that makes no progress for timeout_per_job seconds is killed and
    reported as `timeout`, a job during which the process dies as `crash`; the process is restarted for the remaining jobs"""
    d = tempfile.mkdtemp(prefix='vreplay-', dir=WORK)
    try:
        for i, j in enumerate(jobs):
            with open(os.path.join(d, '%d.job' % i), 'w') as f:
                f.write(j)
        n = len(jobs)
        results = [None] * n
        nxt = 0
        restarts = 0
        while nxt < n:
            restarts += 1
            if restarts > n + 2:
                raise ReplayBuildError('vreplay makes no progress')
            p = subprocess.Popen([exe, d], stdout=subprocess.DEVNULL, stderr=subprocess.PIPE, text=True)
            last = time.time()
            timed_out = False
            start_nxt = nxt
            while True:
                rc = p.poll()
                adv = False
                while nxt < n and os.path.exists(os.path.join(d, '%d.out' % nxt)) and (rc is not None or os.path.exists(os.path.join(d, '%d.started' % (nxt + 1))) or nxt + 1 == n):
                    nxt += 1
                    adv = True
                if adv:
                    last = time.time()
                if rc is not None:
                    break
                if time.time() - last > timeout_per_job:
                    timed_out = True
                    p.kill()
                    p.wait()
                    rc = -9
                    break
                time.sleep(0.02)
            # collect everything that has an .out file
            while nxt < n and os.path.exists(os.path.join(d, '%d.out' % nxt)):
                nxt += 1
            if nxt < n:
                if os.path.exists(os.path.join(d, '%d.started' % nxt)):
                    st = 'timeout' if timed_out else 'crash'
                    with open(os.path.join(d, '%d.out' % nxt), 'w') as f:
                        json.dump(dict(status=st, err='process %s (rc=%s) while running this job' % (st, rc)), f)
                    nxt += 1
                elif nxt == start_nxt and not timed_out:
                    raise ReplayBuildError('vreplay exited %s without progress: %s' % (rc, (p.stderr.read() if p.stderr else '')[-500:]))
        for i in range(n):
            try:
                results[i] = json.load(open(os.path.join(d, '%d.out' % i)))
            except Exception as ex:
                results[i] = dict(status='crash', err='unreadable output: %s' % ex)
        return results
    finally:
        shutil.rmtree(d, ignore_errors=True)


def run_jobs(jobs, timeout_per_job=20):
    """jobs: list of job texts (first line command, rest payload).  Returns list of dicts (status in
    ok|err|panic|crash|timeout).  Large batches are spread over several processes."""
    exe = build()
    k = max(1, min(12, len(jobs) // 1500))
    if k == 1:
        return _run_chunk(exe, jobs, timeout_per_job)
    size = (len(jobs) + k - 1) // k
    chunks = [jobs[i:i + size] for i in range(0, len(jobs), size)]
    from concurrent.futures import ThreadPoolExecutor
    with ThreadPoolExecutor(len(chunks)) as ex:
        parts = list(ex.map(lambda c: _run_chunk(exe, c, timeout_per_job), chunks))
    return [r for part in parts for r in part]


def build_src(src):
    return run_jobs(['build\n' + src])[0]
