"""Build the native replay tool against /repo's current working tree and run concrete inputs through it."""
import json
import os
import shutil
import subprocess
import tempfile

VERIF = os.path.dirname(os.path.dirname(os.path.abspath(__file__)))
WORK = os.path.join(VERIF, '.work')
REPO = os.environ.get('VERIF_REPO', '/repo')

_built = None


class ReplayBuildError(Exception):
    pass


def build():
    """cargo build of /verif/replay (path dependency on /repo) -> path of the binary.  Offline."""
    global _built
    if _built:
        return _built
    crate = os.path.join(VERIF, 'replay')
    shutil.copyfile(os.path.join(REPO, 'Cargo.lock'), os.path.join(crate, 'Cargo.lock'))
    env = dict(os.environ, CARGO_NET_OFFLINE='true', CARGO_TARGET_DIR=os.path.join(WORK, 'replay-target'))
    p = subprocess.run(['cargo', 'build', '--offline', '--quiet'], cwd=crate, env=env, capture_output=True, text=True)
    if p.returncode != 0:
        raise ReplayBuildError(p.stderr[-4000:])
    _built = os.path.join(WORK, 'replay-target', 'debug', 'vreplay')
    return _built


def run_jobs(jobs, timeout_per_job=20):
    """jobs: list of job texts (first line command, rest payload).  Returns list of dicts (status in
    ok|err|panic|crash|timeout)."""
    exe = build()
    d = tempfile.mkdtemp(prefix='vreplay-', dir=WORK)
    try:
        for i, j in enumerate(jobs):
            with open(os.path.join(d, '%d.job' % i), 'w') as f:
                f.write(j)
        results = [None] * len(jobs)
        guard = 0
        while any(r is None for r in results) and guard < len(jobs) + 2:
            guard += 1
            try:
                p = subprocess.run([exe, d], capture_output=True, text=True,
                                   timeout=timeout_per_job * max(1, sum(1 for r in results if r is None)))
                rc, timed_out = p.returncode, False
            except subprocess.TimeoutExpired:
                rc, timed_out = -1, True
            for i in range(len(jobs)):
                if results[i] is not None:
                    continue
                out = os.path.join(d, '%d.out' % i)
                if os.path.exists(out):
                    try:
                        results[i] = json.load(open(out))
                    except Exception as ex:
                        results[i] = dict(status='crash', err='unreadable output: %s' % ex)
                elif os.path.exists(os.path.join(d, '%d.started' % i)):
                    st = 'timeout' if timed_out else 'crash'
                    results[i] = dict(status=st, err='process %s (rc=%s) while running this job' % (st, rc))
                    with open(out, 'w') as f:
                        json.dump(results[i], f)
                    break
            else:
                if rc != 0 and not timed_out and any(r is None for r in results):
                    raise ReplayBuildError('vreplay exited %s without progress' % rc)
        return results
    finally:
        shutil.rmtree(d, ignore_errors=True)


def build_src(src):
    return run_jobs(['build\n' + src])[0]
