"""Property driver: runs the units of one property, decides, replays, writes evidence."""
import json
import os
import sys
import time
import traceback
from concurrent.futures import ThreadPoolExecutor

from . import core, replay, kani
import re
from .core import VERIF, REPO, Failure


class WitnessResult:
    def __init__(self, name, job, ok, observed, expected, obligation=None, note=''):
        self.name, self.job, self.ok, self.observed, self.expected = name, job, ok, observed, expected
        self.obligation = obligation   # obligation id prefix this witness belongs to (unit/fn) or None
        self.note = note

    def to_json(self, full=False):
        lim = 400000 if full else 600
        return dict(name=self.name, input=self.job[:lim], ok=self.ok, observed=str(self.observed)[:1500],
                    expected=str(self.expected)[:1500], note=self.note)


def _second_opinion(failures, undecided, kani_runs, tier, seed):
    """Z3 cannot do bit-level reasoning without proof text inside the body, which the extraction never adds.  A per-operator clause of
    Expr::run_nested that Verus fails to prove is therefore put to the COMPLETE Kani harness of the same operator (all operand values,
    bit-precise): if that harness verifies, the clause holds and the Verus failure is a prover limit -> UNDECIDED, not a violation."""
    import expr_gen
    names = dict(Add='add', Sub='sub', Mul='mul', BitwiseAnd='and', BitwiseXor='xor', BitwiseOr='or', ShiftLeft='shl', ShiftRight='shr',
                 LessThan='lt', LessOrEqual='le', GreaterThan='gt', GreaterOrEqual='ge', Equal='eq', NotEqual='ne', LogicalAnd='land', LogicalOr='lor')
    unames = dict(Minus='minus', BitwiseNot='bitnot', LogicalNot='lognot')
    todo = {}
    for f in failures:
        if f.backend == 'verus' and f.unit == 'expr' and f.fn == 'run_nested' and f.label:
            m = re.match(r'binary_(\w+)$', f.label)
            if m and m.group(1) in names:
                todo[f.oid] = 'step_bin_' + names[m.group(1)]
            m = re.match(r'unary_(\w+)$', f.label)
            if m and m.group(1) in unames:
                todo[f.oid] = 'step_un_' + unames[m.group(1)]
    if not todo:
        return failures, undecided
    have = {}
    for k in kani_runs:
        if k.name == 'exprstep':
            for h, d in k.harnesses.items():
                have[h] = d
    need = sorted(set(h for h in todo.values() if h not in have))
    if need:
        kr = kani.run_group('exprstep', [(h, w) for h, w in expr_gen.step_harness_names(tier) if h in need], tier, seed)
        if not kr.undecided:
            for h in need:
                if h in kr.harnesses:
                    have[h] = kr.harnesses[h]
    out = []
    for f in failures:
        h = todo.get(f.oid)
        d = have.get(h) if h else None
        ok = d is not None and d.get('ok') is True
        if ok:
            undecided.append('expr: Verus could not prove %s, but the complete Kani harness %s (all operand values, bit-precise) proves the same clause: '
                             'a limit of the SMT solver on bit-level code, not a violation' % (f.oid, h))
        else:
            out.append(f)
    return out, undecided


def _known_matches(kf, prop, f):
    return kf.get('status') == 'open' and kf.get('property') == prop and kf.get('obligation') == f.oid


def _witness_still_fails(kf):
    """an open finding suppresses its obligation only while its recorded witness still fails on the real code"""
    w = kf.get('witness')
    if not w:
        return True
    try:
        r = replay.run_jobs([w['job']])[0]
    except Exception:
        return True
    exp = w.get('fails_when', {})
    if 'status' in exp and r.get('status') != exp['status']:
        return False
    if 'code' in exp and r.get('code') != exp['code']:
        return False
    return True


def run_property(prop, tier, seed):
    from . import props
    t0 = time.time()
    spec = props.PROPS[prop]
    # replay files are rewritten by every run
    rd = os.path.join(core.OUT, 'replays')
    if os.path.isdir(rd):
        for fn in os.listdir(rd):
            if fn.startswith(prop + '_'):
                os.remove(os.path.join(rd, fn))
    unit_names = list(spec.get('verus', []))
    # properties this one presupposes (transitively): their Verus units and witness families are part of this check as well -- a clause
    # or a concrete input of a presupposed property that fails is a failure of what this property's statement rests on
    closure = []
    todo = list(spec.get('depends_on', []))
    while todo:
        q = todo.pop(0)
        if q == prop or q in closure or q not in props.PROPS:
            continue
        closure.append(q)
        todo += list(props.PROPS[q].get('depends_on', []))
    if not spec.get('only_untagged', False):
        for q in closure:
            unit_names += [u for u in props.PROPS[q].get('verus', []) if u not in unit_names]
    if tier == 'thorough':
        unit_names += [u for u in spec.get('verus_thorough', []) if u not in unit_names]
    undecided = []
    failures = []
    units = []
    kani_runs = []
    kani_groups = spec.get('kani_%s' % tier, spec.get('kani', []))
    with ThreadPoolExecutor(max_workers=4) as ex:
        futs = [ex.submit(core.run_verus_unit, u) for u in unit_names]
        kfut = None
        if kani_groups:
            from . import kani
            kfut = ex.submit(kani.run_groups, kani_groups, tier, seed)
        for fu in futs:
            try:
                units.append(fu.result())
            except Exception as e:
                undecided.append('internal error running verus unit: %r\n%s' % (e, traceback.format_exc()[-800:]))
        if kfut:
            try:
                kani_runs = kfut.result()
            except Exception as e:
                undecided.append('internal error running kani: %r\n%s' % (e, traceback.format_exc()[-800:]))
    # stability pass (thorough): different seed + re-check; a flip is reported as unstable, not as a violation
    unstable = []
    if tier == 'thorough':
        for u in list(units):
            if u.undecided or u.failures:
                continue
            u2 = core.run_verus_unit(u.name, seed=(seed or 0) + 1)
            if u2.failures or u2.undecided:
                unstable.append('%s: %s' % (u.name, [f.oid for f in u2.failures] + u2.undecided))
    only_untagged = spec.get('only_untagged', False)

    whole_units = set(spec.get('whole_units', []))     # units whose every clause counts for this property, whatever its tags

    depends_on = set(closure)        # properties whose clauses this property's statement presupposes (transitively)

    def _counts(f):
        if f.unit in whole_units:
            return True
        return f.applies_to(prop) or any(f.applies_to(q) for q in depends_on)
    for u in units:
        undecided += ['%s: %s' % (u.name, x) for x in u.undecided]
        failures += [f for f in u.failures if _counts(f)]
    for k in kani_runs:
        undecided += k.undecided
        failures += [f for f in k.failures if _counts(f)]
    failures, undecided = _second_opinion(failures, undecided, kani_runs, tier, seed)

    # native witnesses (binding + boundary families); decide nothing universal, but a failing one is a real failing input
    witnesses = []
    wfns = []
    for q in [prop] + closure:
        wf_q = props.PROPS[q].get('witnesses')
        key = props.PROPS[q].get('witness_key', q)       # families shared by several properties are run once
        if wf_q and key not in [k for k, _ in wfns]:
            wfns.append((key, wf_q))
    for _key, wfn in wfns:
        try:
            witnesses += wfn(tier, seed)
        except replay.ReplayBuildError as e:
            undecided.append('replay tool does not build against the current tree: %s' % str(e)[-600:])
            break
        except Exception as e:
            undecided.append('witness run failed: %r\n%s' % (e, traceback.format_exc()[-800:]))
    bad_w = [w for w in witnesses if not w.ok]
    # attach reproducing witnesses to verifier failures of the same function
    for f in failures:
        if f.witness is None and f.cex is None:
            for w in bad_w:
                if w.obligation and f.oid.startswith(w.obligation):
                    f.witness = w.to_json(full=True)
                    break
    # a failing witness with no verifier failure attached is reported on its own
    # (further failing witnesses of a function that already has a failed obligation are the same defect: listed in the
    #  evidence, not reported again)
    have = [f.oid for f in failures]
    seen_groups = set()
    for w in bad_w:
        if any(w.obligation and o.startswith(w.obligation) for o in have):
            continue
        if (w.obligation or w.name) in seen_groups:
            continue
        seen_groups.add(w.obligation or w.name)
        if True:
            f = Failure('witness', w.obligation or 'pipeline', 'concrete', w.name, 'concrete input fails on the real code',
                        'native', None, label=w.name)
            f.witness = w.to_json(full=True)
            failures.append(f)

    # Kani counterexamples: replay on the real code
    if spec.get('cex_replay'):
        for f in failures:
            if f.cex and f.witness is None:
                try:
                    f.witness = spec['cex_replay'](f)
                except Exception as e:
                    f.witness = dict(note='replay of the counterexample failed to run: %r' % e)

    # known findings
    known = core.load_known()
    reported, kf_lines = [], []
    for f in failures:
        kf = next((k for k in known if _known_matches(k, prop, f) or any(_known_matches(k, q, f) for q in closure)), None)
        if kf and _witness_still_fails(kf):
            via = '' if kf.get('property') == prop else '(finding on %s, which %s presupposes) ' % (kf.get('property'), prop)
            kf_lines.append('KNOWN-FINDING: property=%s %s%s [%s]' % (prop, via, kf.get('what', ''), f.oid))
        else:
            reported.append(f)

    # a Kani counterexample that does not reproduce natively means harness or extraction misrepresents the code
    really = []
    for f in reported:
        if f.backend == 'kani' and f.witness is not None and f.witness.get('reproduced') is False:
            undecided.append('kani counterexample for %s did not reproduce on the real crate (harness/extraction problem): %s'
                             % (f.oid, json.dumps(f.witness)[:400]))
        else:
            really.append(f)
    reported = really

    # evidence
    nfun_ok = sum(1 for u in units for fn, d in u.functions.items() if d.get('success') and 'sentinel' not in fn)
    nfun_all = sum(1 for u in units for fn, d in u.functions.items() if 'sentinel' not in fn)
    k_all = sum(len(k.harnesses) for k in kani_runs)
    k_ok = sum(1 for k in kani_runs for h in k.harnesses.values() if h.get('ok'))
    obligations = nfun_all + k_all
    discharged = nfun_ok + k_ok
    samples = []
    for u in units:
        for fn, d in sorted(u.functions.items()):
            if 'sentinel' in fn:
                continue
            samples.append(dict(obligation='%s (all requires/ensures/invariant/decreases/panic-freedom VCs of this function)' % fn,
                                backend='verus/z3', discharged=bool(d.get('success')), smt_us=d.get('time_us'), rlimit=d.get('rlimit')))
    for k in kani_runs:
        for h, d in sorted(k.harnesses.items()):
            samples.append(dict(obligation='kani harness %s: %s' % (h, d.get('what', '')), backend='kani/cbmc',
                                discharged=bool(d.get('ok')), checks=d.get('checks'), covers=d.get('covers'), solver_s=d.get('time_s')))
    assumptions = list(spec.get('assumptions', []))
    for u in units:
        assumptions += ['[scan %s] %s' % (u.name, a) for a in u.assumptions]
    for k in kani_runs:
        assumptions += k.assumptions
    trusted = list(spec.get('trusted', [])) + [
        'Verus 0.2026.09.13 + Z3', 'Kani 0.68 + CBMC 6.11 (where used)', 'rustc',
        'the extractor and its rewrite rules (vfw/rsitems.py, vfw/rules.py); every application is logged under coverage.extraction',
    ]
    coverage = dict(
        obligations=obligations,
        discharged=discharged,
        checker_cmd='; '.join([u.cmd for u in units if u.cmd] + [k.cmd for k in kani_runs if k.cmd]) or 'none',
        trusted_base=trusted,
        samples=samples[:400],
        explanation=spec.get('explanation', ''),
        functions_under_contract=spec.get('functions', []),
        clauses_in_sidecars=sum(u.clauses for u in units),
        verus_units=[dict(unit=u.name, file=u.path, verified=u.verified, wall_s=round(u.wall_s, 2), smt_ms=u.smt_ms,
                          sentinel_failed_as_required=u.sentinel_failed, extracted=u.extracted) for u in units],
        kani=[k.summary() for k in kani_runs],
        extraction=dict(rewrites=[r for u in units for r in u.rewrites] + [r for k in kani_runs for r in k.rewrites]),
        witnesses=dict(run=len(witnesses), failing=len(bad_w), note='native runs of concrete inputs through the real crate; '
                       'bounded, not counted as obligations', samples=[w.to_json() for w in (bad_w + witnesses)[:8]]),
        bounded_parts=spec.get('bounded', []),
        not_decided=spec.get('not_decided', []),
        unstable=unstable,
        undecided=undecided,
        failed_obligations=[f.to_json() for f in failures],
        known_findings_applied=kf_lines,
        exhaustive=False,
    )
    core.write_evidence(prop, tier, seed, t0, coverage, assumptions, len(reported))

    for l in kf_lines:
        print(l)
    if reported:
        for f in reported:
            path = core.write_replay(prop, f)
            suffix = '' if (f.witness and f.witness.get('reproduced', True) and (f.witness.get('input') or f.witness.get('job'))) else ' no-failing-input-found'
            print('failed obligation: %s -- %s -- %s' % (f.oid, f.message, (f.clause or '')[:160]))
            print('VIOLATION property=%s replay=%s%s' % (prop, path, suffix))
        return 1
    if undecided:
        for u in undecided:
            print('UNDECIDED property=%s reason=%s' % (prop, u.replace('\n', ' ')[:600]))
        return 2
    print('OK property=%s tier=%s obligations=%d discharged=%d wall=%.1fs' % (prop, tier, obligations, discharged, time.time() - t0))
    return 0


def do_replay(path):
    doc = json.load(open(path))
    w = doc.get('replay') or {}
    job = w.get('job') or w.get('input')
    print('failed obligation:', doc.get('failed_obligation'))
    print('verifier message :', doc.get('verifier_message'))
    if not job:
        print('no concrete input recorded (no-failing-input-found); verifier output follows')
        print(doc.get('verifier_output', ''))
        return 1
    r = replay.run_jobs([job])[0]
    print('input    :', job[:2000])
    print('observed :', json.dumps(r)[:2000])
    print('expected :', w.get('expected'))
    return 1


def main(argv):
    if not argv or argv[0] in ('-h', '--help'):
        print(__doc__)
        return 2
    if argv[0] == '--replay':
        return do_replay(argv[1])
    prop = argv[0]
    tier = argv[1] if len(argv) > 1 else os.environ.get('VERIF_TIER', 'quick')
    seed = int(os.environ.get('VERIF_SEED', '0') or 0)
    from . import props
    if prop not in props.PROPS:
        print('UNDECIDED property=%s reason=no check registered' % prop)
        return 2
    try:
        return run_property(prop, tier, seed)
    except Exception as e:
        print('UNDECIDED property=%s reason=internal error %r' % (prop, e))
        traceback.print_exc()
        return 2
