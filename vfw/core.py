"""Verdict logic shared by all properties: run units, classify, apply known findings, write evidence."""
import hashlib
import json
import os
import re
import sys
import time
from concurrent.futures import ThreadPoolExecutor

from . import gen, verus

VERIF = os.path.dirname(os.path.dirname(os.path.abspath(__file__)))
WORK = os.environ.get('VERIF_WORK') or os.path.join(VERIF, '.work')   # (VERIF_WORK: scratch experiments only)
OUT = os.environ.get('VERIF_WORK') or VERIF     # evidence/ and replays/ of a scratch experiment stay in its own directory
REPO = os.environ.get('VERIF_REPO', '/repo')

TAG_RE = re.compile(r'//\s*\[((?:C\d+[ ,]*)+)\]')
LABEL_RE = re.compile(r'//.*?#([A-Za-z0-9_.:-]+)')
ASSUME_SCAN = re.compile(r'external_body|assume_specification|\bassume\s*\(|\badmit\s*\(|exec_allows_no_decreases_clause|broadcast axiom|\baxiom fn|external_type_specification|#\[verifier::external\]')


class Failure:
    def __init__(self, unit, fn, kind, clause, message, backend, props=None, detail='', label=None, line=None):
        self.unit, self.fn, self.kind, self.clause = unit, fn, kind, clause
        self.message, self.backend, self.props, self.detail = message, backend, props, detail
        self.label = label
        self.line = line
        self.witness = None      # filled by replay: dict(input=..., observed=..., expected=...)
        self.cex = None

    @property
    def oid(self):
        lab = self.label or hashlib.sha1((self.clause or self.message).encode()).hexdigest()[:8]
        return '%s/%s/%s#%s' % (self.unit, self.fn, self.kind, lab)

    def applies_to(self, prop):
        return self.props is None or prop in self.props

    def to_json(self):
        return dict(obligation=self.oid, unit=self.unit, function=self.fn, kind=self.kind, clause=self.clause,
                    message=self.message, backend=self.backend, detail=self.detail[-3000:], witness=self.witness,
                    counterexample=self.cex)


class Undecided(Exception):
    pass


class UnitRun:
    """result of one Verus unit"""
    def __init__(self, name):
        self.name = name
        self.failures = []
        self.undecided = []     # strings
        self.functions = {}     # verus function name -> dict
        self.verified = 0
        self.clauses = 0
        self.rewrites = []
        self.extracted = []
        self.assumptions = []
        self.smt_ms = 0
        self.wall_s = 0
        self.cmd = ''
        self.sentinel_failed = False
        self.path = ''
        self.max_rlimit_frac = 0.0


def _diag_to_failure(unit, g, d):
    """map a Verus diagnostic to a Failure using the generated file's line map"""
    # the most specific span: prefer a span that lies on a spec/loopinv line (the failed clause), else primary
    cand = [(ln, lab, txt) for (ln, lab, txt) in d['labels']]
    chosen = None
    for ln, lab, txt in cand:
        if 1 <= ln <= len(g.origin) and g.origin[ln - 1].get('kind') in ('spec', 'loopinv') :
            chosen = ln
            break
    if chosen is None:
        for ln, lab, txt in cand:
            if 1 <= ln <= len(g.origin) and g.origin[ln - 1].get('kind') == 'text' and re.search(r'\b(requires|ensures|invariant)\b|==>|<==>|==|<=', g.lines[ln - 1]):
                # a clause of a prelude stub (precondition of an assumed callee)
                chosen = ln
                break
    if chosen is None:
        chosen = d['line']
    org = g.origin[chosen - 1] if 1 <= chosen <= len(g.origin) else {}
    text = g.lines[chosen - 1].strip() if 1 <= chosen <= len(g.lines) else d['text']
    # which function does the *primary* line belong to (the function being verified)?
    fn = None
    for ln in [d['line']] + [c[0] for c in cand]:
        for f in g.functions:
            if f['gen_start'] <= ln <= f['gen_end']:
                fn = f['name']
                break
        if fn:
            break
    if fn is None:
        fn = org.get('fn') or _enclosing_text_fn(g, d['line']) or '?'
    msg = d['message']
    m = msg.lower()
    if 'postcondition' in m:
        kind = 'ensures'
    elif 'invariant' in m:
        kind = 'invariant'
    elif 'precondition' in m:
        kind = 'requires@callsite'
    elif 'decreases' in m or 'termination' in m:
        kind = 'decreases'
    elif 'assertion' in m:
        kind = 'assert'
    else:
        kind = 'panic'
    if not TAG_RE.search(text) and not LABEL_RE.search(text) and not text.startswith('({') and org.get('kind') in ('spec', 'loopinv'):
        # a clause that runs over several lines: its tags / label sit on the line where its brackets close
        depth = 0
        for ln2 in range(chosen - 1, min(chosen + 60, len(g.lines))):
            code = re.sub(r'//.*$', '', g.lines[ln2])
            depth += sum(code.count(c) for c in '([{') - sum(code.count(c) for c in ')]}')
            if depth <= 0 and code.strip().endswith(','):
                if ln2 != chosen - 1 and (TAG_RE.search(g.lines[ln2]) or LABEL_RE.search(g.lines[ln2])):
                    text = text + ' ... ' + g.lines[ln2].strip()
                break
    elif text.startswith('({') or (not TAG_RE.search(text) and not LABEL_RE.search(text) and text.count('{') > text.count('}')):
        # a block clause: its tags/label sit on the closing line `}), // [..] #label`
        for ln2 in range(chosen, min(chosen + 40, len(g.lines))):
            l2 = g.lines[ln2].strip()
            if l2.startswith('})'):
                text = (text if not text.startswith('({') else '({') + ' ... ' + l2
                break
    tags = TAG_RE.search(text)
    props = None
    if tags:
        props = set(re.findall(r'C\d+', tags.group(1)))
    lab = LABEL_RE.search(text)
    label = lab.group(1) if lab else None
    clause = TAG_RE.sub('', text).strip()
    clause = re.sub(r'//.*$', '', clause).strip().rstrip(',')
    clause = re.sub(r'\s*#[A-Za-z0-9_.:-]+\s*$', '', clause).strip().rstrip(',')
    if kind in ('panic', 'requires@callsite', 'decreases', 'assert'):
        # identify by the code line that raised it (text, not line number: survives unrelated edits)
        prim_txt = g.lines[d['line'] - 1].strip() if 1 <= d['line'] <= len(g.lines) else d['text']
        clause = '%s @ %s' % (clause, prim_txt) if clause != prim_txt else prim_txt
    f = Failure(unit, fn, kind, clause, msg, 'verus', props, d.get('rendered', ''), label, d['line'])
    return f


def _enclosing_text_fn(g, line):
    for ln in range(min(line, len(g.lines)), 0, -1):
        m = re.match(r'\s*(pub\s+)?(proof\s+|exec\s+|broadcast\s+proof\s+)?fn\s+(\w+)', g.lines[ln - 1])
        if m:
            return m.group(3)
    return None


def run_verus_unit(name, sidecar=None, rlimit=None, extra=(), seed=None):
    ur = UnitRun(name)
    sidecar = sidecar or os.path.join(VERIF, 'contracts', name + '.vspec')
    try:
        g = gen.generate(sidecar, REPO, 'verus')
    except gen.GenError as ex:
        ur.undecided.append('extraction: %s' % ex)
        return ur
    except Exception as ex:  # scanner trouble on edited source is not a verdict
        ur.undecided.append('extraction crashed: %r' % ex)
        return ur
    outdir = os.path.join(WORK, 'verus')
    os.makedirs(outdir, exist_ok=True)
    path = os.path.join(outdir, name + '.rs')
    with open(path, 'w') as f:
        f.write(g.text())
    ur.path = path
    ur.clauses = g.clauses
    ur.rewrites = g.rewrites
    ur.extracted = [dict(fn=f['name'], file=f['file'], line=f['line']) for f in g.functions]
    for i, l in enumerate(g.lines):
        if ASSUME_SCAN.search(l) and not l.strip().startswith('//'):
            ur.assumptions.append('%s.rs:%d %s' % (name, i + 1, l.strip()[:160]))
    ex = list(extra)
    if seed is not None:
        ex += ['--smt-option', 'random_seed=%d' % seed]
    res = verus.run(path, rlimit=rlimit, extra=ex)
    ur.cmd = res.cmd
    ur.wall_s = res.wall_s
    ur.smt_ms = res.smt_ms
    ur.version = res.version
    if res.crashed:
        ur.undecided.append('verus crashed or produced no output: %s' % res.raw_stderr[-1500:])
        return ur
    ur.functions = res.functions
    rl_only = []
    for d in res.diags:
        ln = d['line']
        org = g.origin[ln - 1] if 1 <= ln <= len(g.origin) else {}
        if org.get('kind') == 'sentinel':
            ur.sentinel_failed = True
            continue
        if d['kind'] == 'tool':
            ur.undecided.append('verus rejected the unit: %s @ %s.rs:%d: %s' % (d['message'], name, ln, d['text'][:120]))
        elif d['kind'] == 'rlimit':
            rl_only.append(d)
        else:
            ur.failures.append(_diag_to_failure(name, g, d))
    if rl_only and rlimit is None:
        # retry once with a much larger budget; a definite failure found there is handled normally
        ur2 = run_verus_unit(name, sidecar, rlimit=100, extra=extra, seed=seed)
        ur2.wall_s += ur.wall_s
        return ur2
    _seen = set()
    _uniq = []
    for f in ur.failures:
        if f.oid not in _seen:
            _seen.add(f.oid)
            _uniq.append(f)
    ur.failures = _uniq
    for d in rl_only:
        ur.undecided.append('rlimit exceeded: %s.rs:%d %s' % (name, d['line'], d['text'][:120]))
    if not ur.undecided and not ur.sentinel_failed:
        ur.undecided.append('sentinel `assert(false)` verified: the assumed contracts of unit %s are inconsistent' % name)
    # count: Verus' own number, minus nothing (sentinel is an error, not counted in verified)
    ur.verified = res.verified
    if not ur.undecided and res.verified == 0:
        ur.undecided.append('vacuous run: verus verified 0 functions in unit %s' % name)
    return ur


# ---------------------------------------------------------------------------------------------------

def load_known():
    p = os.path.join(VERIF, 'known_findings.json')
    if not os.path.exists(p):
        return []
    return json.load(open(p)).get('findings', [])


def write_evidence(prop, tier, seed, t0, coverage, assumptions, violations):
    os.makedirs(os.path.join(OUT, 'evidence'), exist_ok=True)
    ev = dict(property_id=prop, tier=tier, seed=seed, level='proof', coverage=coverage,
              assumptions=assumptions, wall_s=round(time.time() - t0, 2), violations=violations)
    with open(os.path.join(OUT, 'evidence', prop + '.json'), 'w') as f:
        json.dump(ev, f, indent=1, sort_keys=False)
    return ev


def write_replay(prop, failure, extra=None):
    d = os.path.join(OUT, 'replays')
    os.makedirs(d, exist_ok=True)
    name = '%s_%s.json' % (prop, hashlib.sha1(failure.oid.encode()).hexdigest()[:10])
    path = os.path.join(d, name)
    doc = dict(property=prop, failed_obligation=failure.oid, function=failure.fn, unit=failure.unit,
               clause=failure.clause, verifier=failure.backend, verifier_message=failure.message,
               verifier_output=failure.detail[-6000:], counterexample=failure.cex, replay=failure.witness,
               how_to_replay='./check --replay %s' % path)
    if extra:
        doc.update(extra)
    with open(path, 'w') as f:
        json.dump(doc, f, indent=1)
    return path
