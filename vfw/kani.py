"""Kani contract harnesses on the extracted slice (plain #[kani::proof] with explicit pre/post; see DESIGN.md section 4)."""
import os
import re
import shutil
import subprocess
import time
from concurrent.futures import ThreadPoolExecutor

from . import gen
from .core import VERIF, WORK, REPO, Failure

KANI_TIMEOUT = int(os.environ.get('VERIF_KANI_TIMEOUT', '1500'))


class KaniRun:
    def __init__(self, name):
        self.name = name
        self.harnesses = {}     # name -> dict(ok, what, checks, covers, time_s)
        self.failures = []
        self.undecided = []
        self.assumptions = []
        self.rewrites = []
        self.cmd = ''
        self.wall_s = 0

    def summary(self):
        return dict(slice=self.name, harnesses=len(self.harnesses), ok=sum(1 for h in self.harnesses.values() if h.get('ok')),
                    wall_s=round(self.wall_s, 1), cmd=self.cmd)


def make_crate(name, sidecar=None):
    sidecar = sidecar or os.path.join(VERIF, 'contracts', name + '.kspec')
    g = gen.generate(sidecar, REPO, 'kani')
    d = os.path.join(WORK, 'kslice', name)
    os.makedirs(os.path.join(d, 'src'), exist_ok=True)
    os.makedirs(os.path.join(d, '.cargo'), exist_ok=True)
    with open(os.path.join(d, 'Cargo.toml'), 'w') as f:
        f.write('[package]\nname = "kslice_%s"\nversion = "0.1.0"\nedition = "2021"\n\n[dependencies]\n\n[workspace]\n\n'
                '[lints.rust]\nunexpected_cfgs = { level = "allow" }\n' % name)
    with open(os.path.join(d, '.cargo', 'config.toml'), 'w') as f:
        f.write('[net]\noffline = true\n')
    with open(os.path.join(d, 'src', 'main.rs'), 'w') as f:
        f.write(g.text())
    return d, g




def _run_group_kill(cmd, cwd, env, timeout):
    """subprocess.run that kills the whole process group on timeout (cargo-kani leaves cbmc children behind otherwise)"""
    import signal
    p = subprocess.Popen(cmd, cwd=cwd, env=env, stdout=subprocess.PIPE, stderr=subprocess.PIPE, text=True, start_new_session=True)
    try:
        out, err = p.communicate(timeout=timeout)
        return p.returncode, out, err, False
    except subprocess.TimeoutExpired:
        try:
            os.killpg(p.pid, signal.SIGKILL)
        except Exception:
            pass
        try:
            out, err = p.communicate(timeout=10)
        except Exception:
            out, err = '', ''
        return -9, out or '', (err or '') + '\nTIMEOUT after %ss' % timeout, True

RESULT_RE = re.compile(r'VERIFICATION:-\s*(SUCCESSFUL|FAILED)')


def run_harness(crate_dir, harness, extra_cfg=None, playback=False, timeout=None):
    cmd = ['cargo', 'kani', '--harness', harness, '--exact', '--output-format', 'terse', '-Z', 'unstable-options', '--no-memory-safety-checks']
    if playback:
        cmd += ['-Z', 'concrete-playback', '--concrete-playback=print']
    env = dict(os.environ, CARGO_NET_OFFLINE='true', CARGO_TARGET_DIR=os.path.join(crate_dir, 'target-' + re.sub(r'\W', '_', harness)[:40]))
    if extra_cfg:
        env['RUSTFLAGS'] = (env.get('RUSTFLAGS', '') + ' --cfg %s' % extra_cfg).strip()
    t0 = time.time()
    try:
        rc, o, e, _to = _run_group_kill(cmd, crate_dir, env, timeout or KANI_TIMEOUT)
        out = o + '\n' + e
    finally:
        shutil.rmtree(env['CARGO_TARGET_DIR'], ignore_errors=True)
    return rc, out, time.time() - t0


def parse_output(out):
    """-> dict(verdict, failed_checks=[(desc, location)], covers=(sat, total), nchecks)"""
    m = RESULT_RE.search(out)
    verdict = m.group(1) if m else None
    failed = []
    # "Failed Checks: <desc>\n File: "...", line N, in f"
    for fm in re.finditer(r'Failed Checks: (.*)\n\s*File: "([^"]*)", line (\d+), in (\S+)', out):
        failed.append((fm.group(1).strip(), '%s:%s in %s' % (os.path.basename(fm.group(2)), fm.group(3), fm.group(4))))
    cm = re.search(r'(\d+) of (\d+) cover properties satisfied', out)
    covers = (int(cm.group(1)), int(cm.group(2))) if cm else None
    nm = re.search(r'\*\* (\d+) of (\d+) failed', out)
    nchecks = int(nm.group(2)) if nm else None
    tm = re.search(r'Verification Time: ([0-9.]+)s', out)
    return dict(verdict=verdict, failed=failed, covers=covers, nchecks=nchecks, time_s=float(tm.group(1)) if tm else None)


def parse_playback(out):
    """concrete values of the kani::any() calls in call order, from the generated playback test: list of byte lists"""
    vals = []
    m = re.search(r'let concrete_vals: Vec<Vec<u8>> = vec!\[(.*?)\];', out, re.S)
    if not m:
        return None
    for vm in re.finditer(r'vec!\[([^\]]*)\]', m.group(1)):
        body = vm.group(1).strip()
        vals.append([int(x) for x in body.split(',') if x.strip()] if body else [])
    return vals


def run_many(crate_dir, harnesses, jobs=16, timeout=None, extra_cfg=None):
    """one `cargo kani` invocation (compiles once), harnesses verified in parallel threads; returns {harness: output block}"""
    cmd = ['cargo', 'kani', '--exact', '-j', str(jobs), '--output-format', 'terse', '-Z', 'unstable-options', '--no-memory-safety-checks']
    for h in harnesses:
        cmd += ['--harness', h]
    env = dict(os.environ, CARGO_NET_OFFLINE='true', CARGO_TARGET_DIR=os.path.join(crate_dir, 'target'))
    if extra_cfg:
        env['RUSTFLAGS'] = (env.get('RUSTFLAGS', '') + ' --cfg %s' % extra_cfg).strip()
    t0 = time.time()
    rc, out, err, _to = _run_group_kill(cmd, crate_dir, env, timeout or KANI_TIMEOUT)
    blocks = {}
    thread_of = {}
    cur = None
    for line in out.split('\n'):
        m = re.match(r'Thread (\d+): Checking harness (\S+?)\.\.\.', line)
        if m:
            thread_of[m.group(1)] = m.group(2)
            cur = None
            continue
        m = re.match(r'Checking harness (\S+?)\.\.\.', line)
        if m:
            cur = m.group(1)
            blocks[cur] = ''
            continue
        m = re.match(r'Thread (\d+):\s*(.*)$', line)
        if m and m.group(1) in thread_of:
            cur = thread_of[m.group(1)]
            blocks.setdefault(cur, '')
            blocks[cur] += m.group(2) + '\n'
            continue
        if cur:
            blocks[cur] += line + '\n'
    return blocks, err, time.time() - t0


def _cache_key(crate_dir, harness):
    import hashlib
    src = open(os.path.join(crate_dir, 'src', 'main.rs'), 'rb').read()
    return hashlib.sha256(src + b'|' + harness.encode() + b'|kani-0.68').hexdigest()


def run_group(name, harnesses, tier, seed, jobs=16, cex_decoder=None):
    """harnesses: list of (harness_name, what)"""
    import json
    kr = KaniRun(name)
    t0 = time.time()
    try:
        crate, g = make_crate(name)
    except gen.GenError as ex:
        kr.undecided.append('%s: extraction: %s' % (name, ex))
        return kr
    except Exception as ex:
        kr.undecided.append('%s: extraction crashed: %r' % (name, ex))
        return kr
    kr.rewrites = g.rewrites
    kr.cmd = 'cargo kani --exact -j %d --output-format terse -Z unstable-options --no-memory-safety-checks --harness <%d harnesses>  (crate %s)' % (jobs, len(harnesses), crate)
    kr.assumptions.append('[kani %s] prelude stubs (abstract Ctx, LittleEndian shim, Error, leaf view of Expr) as written in contracts/%s.kspec; '
                          'CBMC pointer/memory-safety checks of std internals are off (the extracted code has no unsafe), '
                          'panics, overflow checks, unwinding assertions are on' % (name, name))
    # content-addressed memo: the verdict of a harness is a function of the generated slice text (which contains the functions
    # extracted from the current tree); identical text => identical verdict.  VERIF_NO_CACHE=1 disables it.
    cache_dir = os.path.join(WORK, 'kcache')
    os.makedirs(cache_dir, exist_ok=True)
    use_cache = os.environ.get('VERIF_NO_CACHE') != '1'
    blocks = {}
    cached = set()
    todo = []
    for h, what in harnesses:
        cp = os.path.join(cache_dir, _cache_key(crate, h))
        if use_cache and os.path.exists(cp):
            blocks[h] = open(cp).read()
            cached.add(h)
        else:
            todo.append(h)
    err = ''
    if todo:
        b2, err, dt = run_many(crate, todo, jobs=jobs)
        blocks.update(b2)
        for h in todo:
            if h in b2 and RESULT_RE.search(b2[h]):
                with open(os.path.join(cache_dir, _cache_key(crate, h)), 'w') as f:
                    f.write(b2[h])
    kr.cached = len(cached)
    for h, what in harnesses:
        out = blocks.get(h)
        if out is None:
            kr.harnesses[h] = dict(ok=False, what=what)
            kr.undecided.append('%s/%s: kani produced no result block: %s' % (name, h, err[-500:].replace('\n', ' | ')))
            continue
        po = parse_output(out)
        ok = po['verdict'] == 'SUCCESSFUL'
        covers_ok = po['covers'] is None or po['covers'][0] == po['covers'][1]
        kr.harnesses[h] = dict(ok=ok and covers_ok, what=what, checks=po['nchecks'], covers=po['covers'], time_s=po['time_s'], cached=h in cached)
        if po['verdict'] is None:
            kr.undecided.append('%s/%s: kani gave no verdict: %s' % (name, h, out[-600:].replace('\n', ' | ')))
            continue
        if ok and not covers_ok:
            kr.undecided.append('%s/%s: vacuity guard: only %d of %d cover points satisfied' % (name, h, po['covers'][0], po['covers'][1]))
            continue
        if not ok:
            seen = set()
            for desc, loc in po['failed']:
                if 'unwinding assertion' in desc:
                    kr.undecided.append('%s/%s: unwinding assertion failed (bound too small): %s' % (name, h, loc))
                    continue
                tags = set(re.findall(r'\bC\d\d\b', desc))
                if not tags:
                    props = None        # a panic reachable in the real code (index, overflow, unwrap): C16, and taints the rest
                    kind = 'panic'
                else:
                    props = tags
                    kind = 'harness'
                key = (desc, kind)
                if key in seen:
                    continue
                seen.add(key)
                f = Failure(name, h, kind, desc.strip('"'), 'kani: ' + desc, 'kani', props, detail=out[-5000:], label=re.sub(r'\W+', '_', desc)[:60])
                f.harness = h
                f.loc = loc
                kr.failures.append(f)
            if not po['failed']:
                kr.undecided.append('%s/%s: FAILED without a parsable failed check: %s' % (name, h, out[-400:].replace('\n', ' | ')))
    kr.wall_s = time.time() - t0
    return kr


def run_groups(groups, tier, seed):
    out = []
    for gdef in groups:
        name = gdef['slice']
        hs = gdef['harnesses'](tier) if callable(gdef['harnesses']) else gdef['harnesses']
        kr = run_group(name, hs, tier, seed, jobs=gdef.get('jobs', 14))
        if gdef.get('also_for'):
            # every failed contract assertion of this harness group also counts for these properties (e.g. the relative-branch
            # leaves decide C03 whichever assertion of the leaf fails)
            for f in kr.failures:
                if f.props is not None:
                    f.props = set(f.props) | set(gdef['also_for'])
        if gdef.get('cex'):
            # concrete values are extracted (and replayed) for the first failures only: each costs two more CBMC runs
            def _one(f, name=name, gdef=gdef):
                try:
                    f.cex = gdef['cex'](name, f)
                except Exception as e:
                    f.cex = dict(note='could not obtain concrete values: %r' % e)
            todo = kr.failures[:3]
            for f in kr.failures[3:]:
                f.cex = dict(note='counterexample extraction skipped: 3 failures of this slice already carry one')
            if todo:
                from concurrent.futures import ThreadPoolExecutor
                with ThreadPoolExecutor(len(todo)) as ex:
                    list(ex.map(_one, todo))
        out.append(kr)
    return out
