"""String/comment/brace-aware scanner for Rust source.

This is *not* a parser or pretty-printer.  It locates items (fn / impl method / enum / struct / static)
by name and returns their text byte for byte, so that what the verifiers see is the code that runs.
"""
import re


class ScanError(Exception):
    pass


def mask(src):
    """Return a same-length string where comments, string and char literals are replaced by spaces
    (newlines kept), so brace matching and keyword search can run on it."""
    out = list(src)
    i, n = 0, len(src)

    def blank(a, b):
        for k in range(a, b):
            if out[k] != '\n':
                out[k] = ' '

    while i < n:
        c = src[i]
        if src.startswith('//', i):
            j = src.find('\n', i)
            j = n if j < 0 else j
            blank(i, j)
            i = j
        elif src.startswith('/*', i):
            depth, j = 1, i + 2
            while j < n and depth:
                if src.startswith('/*', j):
                    depth += 1
                    j += 2
                elif src.startswith('*/', j):
                    depth -= 1
                    j += 2
                else:
                    j += 1
            blank(i, j)
            i = j
        elif c == '"':
            j = i + 1
            while j < n and src[j] != '"':
                j += 2 if src[j] == '\\' else 1
            blank(i + 1, j)
            i = j + 1
        elif c == 'r' and re.match(r'r#*"', src[i:i + 8]) and (i == 0 or not (src[i - 1].isalnum() or src[i - 1] == '_')):
            m = re.match(r'r(#*)"', src[i:])
            close = '"' + m.group(1)
            j = src.find(close, i + len(m.group(0)))
            j = n if j < 0 else j
            blank(i + len(m.group(0)), j)
            i = j + len(close)
        elif c == 'b' and i + 1 < n and src[i + 1] == "'" and (i == 0 or not (src[i - 1].isalnum() or src[i - 1] == '_')):
            i += 1
        elif c == "'":
            # char literal or lifetime
            m = re.match(r"'(\\.[^']*|[^'\\])'", src[i:])
            if m:
                blank(i + 1, i + len(m.group(0)) - 1)
                i += len(m.group(0))
            else:
                i += 1
        else:
            i += 1
    return ''.join(out)


def match_brace(msk, open_pos):
    """msk[open_pos] must be one of ( [ {.  Returns index of the matching closer."""
    pairs = {'(': ')', '[': ']', '{': '}'}
    o = msk[open_pos]
    c = pairs[o]
    depth = 0
    for k in range(open_pos, len(msk)):
        ch = msk[k]
        if ch == o:
            depth += 1
        elif ch == c:
            depth -= 1
            if depth == 0:
                return k
    raise ScanError('unbalanced %s at %d' % (o, open_pos))


class Source:
    def __init__(self, path, text=None):
        self.path = path
        self.text = open(path).read() if text is None else text
        self.msk = mask(self.text)

    def line_of(self, pos):
        return self.text.count('\n', 0, pos) + 1

    # ---- item location -------------------------------------------------------------------
    def _attr_start(self, pos):
        """Extend `pos` (start of an item keyword line) backwards over attributes / doc comments."""
        start = self.text.rfind('\n', 0, pos) + 1
        while True:
            prev_end = start - 1
            if prev_end <= 0:
                break
            prev_start = self.text.rfind('\n', 0, prev_end) + 1
            line = self.text[prev_start:prev_end].strip()
            if line.startswith('#[') or line.startswith('///'):
                start = prev_start
            else:
                break
        return start

    def find_block_item(self, kind, name, within=None):
        """kind in {'enum','struct','trait','mod'}; returns (start,end) of `kind name ... { ... }` incl. attrs."""
        lo, hi = within if within else (0, len(self.text))
        pat = re.compile(r'(?m)^[ \t]*(pub(\([a-z]+\))?\s+)?%s\s+%s\b' % (kind, re.escape(name)))
        m = pat.search(self.msk, lo, hi)
        if not m:
            raise ScanError('%s %s not found in %s' % (kind, name, self.path))
        brace = self.msk.find('{', m.end())
        semi = self.msk.find(';', m.end())
        if semi >= 0 and (brace < 0 or semi < brace):
            return self._attr_start(m.start()), semi + 1
        end = match_brace(self.msk, brace)
        return self._attr_start(m.start()), end + 1

    def find_impl(self, header_regex):
        """Locate `impl ... {` whose header (between 'impl' and '{', whitespace-normalised) fullmatches
        header_regex.  Returns (start, brace_open, end)."""
        for m in re.finditer(r'(?m)^[ \t]*impl\b', self.msk):
            brace = self.msk.find('{', m.end())
            hdr = ' '.join(self.text[m.end():brace].split())
            if re.fullmatch(header_regex, hdr):
                return m.start(), brace, match_brace(self.msk, brace) + 1
        raise ScanError('impl %s not found in %s' % (header_regex, self.path))

    def find_fn(self, name, within=None):
        """Returns (start, body_open, end) of `fn name` (incl. attrs / pub)."""
        lo, hi = within if within else (0, len(self.text))
        pat = re.compile(r'(?m)^[ \t]*(pub(\([a-z]+\))?\s+)?(const\s+)?fn\s+%s\b' % re.escape(name))
        found = list(pat.finditer(self.msk, lo, hi))
        if not found:
            raise ScanError('fn %s not found in %s' % (name, self.path))
        if len(found) > 1:
            raise ScanError('fn %s ambiguous in %s' % (name, self.path))
        m = found[0]
        # the body brace is the first '{' at paren/bracket/angle depth 0 after the parameter list
        par = self.msk.find('(', m.end())
        par_end = match_brace(self.msk, par)
        brace = -1
        depth = 0
        for k in range(par_end + 1, len(self.msk)):
            ch = self.msk[k]
            if ch in '([':
                depth += 1
            elif ch in ')]':
                depth -= 1
            elif ch == '{' and depth == 0:
                brace = k
                break
            elif ch == ';' and depth == 0:
                raise ScanError('fn %s has no body' % name)
        if brace < 0:
            raise ScanError('fn %s has no body' % name)
        end = match_brace(self.msk, brace)
        return self._attr_start(m.start()), brace, end + 1

    def find_static(self, name):
        pat = re.compile(r'(?m)^[ \t]*(pub\s+)?static\s+%s\b' % re.escape(name))
        m = pat.search(self.msk)
        if not m:
            raise ScanError('static %s not found' % name)
        # ends at the ';' at depth 0
        depth = 0
        for k in range(m.end(), len(self.msk)):
            ch = self.msk[k]
            if ch in '([{':
                depth += 1
            elif ch in ')]}':
                depth -= 1
            elif ch == ';' and depth == 0:
                return m.start(), k + 1
        raise ScanError('static %s unterminated' % name)


LOOP_RE = re.compile(r'(?<![A-Za-z0-9_])(for|while|loop)(?![A-Za-z0-9_])')


def loop_headers(text):
    """Positions (kw_start, brace_open) of every loop header in `text` (a fn item), in source order."""
    msk = mask(text)
    res = []
    for m in LOOP_RE.finditer(msk):
        kw = m.group(1)
        # `for` in `impl X for Y` / HRTB does not occur inside fn bodies we extract; still, require a following '{'
        # the header ends at the first '{' at paren depth 0
        depth = 0
        k = m.end()
        brace = -1
        while k < len(msk):
            ch = msk[k]
            if ch in '([':
                depth += 1
            elif ch in ')]':
                depth -= 1
            elif ch == '{' and depth == 0:
                brace = k
                break
            elif ch == ';' and depth == 0:
                break
            k += 1
        if brace < 0:
            continue
        if kw == 'for' and ' in ' not in ' '.join(msk[m.end():brace].split()).join('  '):
            continue
        res.append((m.start(), brace, kw))
    return res
