"""Registry: which units, harnesses and witness families decide which property."""
import os
import re
import random
import sys

from .core import VERIF
from . import core
from .driver import WitnessResult
from . import replay

sys.path.insert(0, os.path.join(VERIF, 'spec'))

PROPS = {}


def _conv_harnesses(tier):
    import expr_gen
    return expr_gen.conv_harness_names(tier)


# ------------------------------------------------------------------------------------------------ C07
def witnesses_c07(tier, seed):
    import ihex_sem
    rnd = random.Random(seed or 7)
    lens = [0, 1, 15, 16, 17, 255, 256, 4097, 65535, 65536, 65537, 1048576 + 17]
    if tier == 'thorough':
        lens += list(range(2, 15)) + list(range(18, 600)) + [131071, 131072, 131073, 1048575, 1048576, 1048577, 1048576 + 65536 + 1,
                                                              524288, 2 * 1048576 + 5]
    jobs, imgs, names = [], [], []
    for n in lens:
        for which in ('code', 'eeprom'):
            if which == 'eeprom' and n > 70000:
                continue
            img = bytes(rnd.randrange(256) for _ in range(n)) if n < 70000 else bytes((i * 131 + (i >> 8) * 7 + (i >> 16)) & 0xff for i in range(n))
            jobs.append('hex %s\n%s' % (which, img.hex()))
            imgs.append(img)
            names.append('hexfile:%s:len=%d' % (which, n))
            if n == 17:
                # the file is written at exactly the path given, whatever it looks like (no extension, several dots)
                for nm in ('firmware', 'fw.v2', 'out.eep.hex.bak'):
                    jobs.append('hex %s none %s\n%s' % (which, nm, img.hex()))
                    imgs.append(img)
                    names.append('hexfile:%s:len=%d:path=%s' % (which, n, nm))
            if n in (17, 4097):
                # whatever is at the output path already (nothing, an empty file, the head of the same output, the same output): the result
                # is the new file, whole
                for prior in ('none', 'empty', 'prefix', 'same'):
                    jobs.append('hex %s %s\n%s' % (which, prior, img.hex()))
                    imgs.append(img)
                    names.append('hexfile:%s:len=%d:over-%s' % (which, n, prior))
    res = replay.run_jobs(jobs, timeout_per_job=60)
    out = []
    for name, job, img, r in zip(names, jobs, imgs, res):
        if r.get('status') != 'ok':
            out.append(WitnessResult(name, job, False, r, 'a HEX file that decodes to the image', 'hex/generate_hex_from_segment'))
            continue
        probs = ihex_sem.check_image(r['file'], img)
        out.append(WitnessResult(name, job, not probs, probs or 'decodes to the image',
                                 'file decodes (independent reader) to exactly the image', 'hex/generate_hex_from_segment'))
    return out


PROPS['C07'] = dict(
    level_text='Proof (Verus, unbounded): for every image, generate_hex_from_segment returns the rendering of a record list that an '
               'independent Intel HEX reader (spec fold) decodes to exactly the image, and it succeeds up to 4 GiB; generate_hex puts the flash '
               'image into .code and the EEPROM image into .eeprom through that function, empty images included; write_code_hex / write_eeprom_hex '
               'leave at the given path exactly the CRLF form of the text of THEIR image (file system as an explicit parameter; std File semantics '
               'assumed). Rendering by the ihex crate and the CRLF conversion itself are assumed and exercised only by a bounded native witness family.',
    level_note='assumes the ihex crate renders records correctly, std slice/Vec contracts, rewrite R5 (chunks/enumerate as index loop); '
               'the std File operations behind write_*_hex are assumed (truncate-or-create, append), the CRLF conversion is uninterpreted: '
               'bounded witnesses write over a longer / empty / truncated / identical file at the same path: the result must be the new file alone',
    technique='Verus loop invariant + postcondition against a spec-level Intel HEX reader on the extracted generator; Verus contract on the extracted write_code_hex / write_eeprom_hex over an explicit file-system parameter',
    verus=['hex'],
    witnesses=witnesses_c07,
    functions=['writer::generate_hex_from_segment (src/writer.rs) -- extracted verbatim, rules R5 R1', 'writer::generate_hex -- verbatim',
               'writer::write_code_hex, writer::write_eeprom_hex -- verbatim over an explicit file-system parameter (RW)'],
    explanation='Verus proves, for every byte slice (no length bound), that generate_hex_from_segment returns the ihex rendering of a record '
                'list which an independent Intel HEX reader (spec fold rd/rd_step in contracts/hex.vspec) decodes to exactly the image: '
                'every byte once at its address, none elsewhere, one EOF record at the end, and that it succeeds for every image of at '
                'most 4 GiB.  Panic-freedom (index, overflow, cast) of the body is part of the same obligations.  write_code_hex / '
                'write_eeprom_hex: on success the file at the given path holds, alone and whole (whatever it held before), the CRLF form of a text '
                'that decodes to the flash / EEPROM image respectively (not the other one), followed by at most one more line end; no other file changes.',
    assumptions=[
        'A-ihex: ihex::create_object_file_representation renders each Record as one well-formed line with a valid checksum and fails '
        'only for a missing/duplicate EOF or a data record > 255 bytes (external crate, contract assumed from its source)',
        'write_code_hex / write_eeprom_hex are verified over an explicit file-system parameter (rule RW: `vfw_fs` added to their signatures): '
        'File::create truncates or creates the file at the path, write_all appends all bytes, write appends a prefix of them (std: Ok(n), n <= len) -- '
        'assumed std semantics; str::replace("\\n", "\\r\\n") and String::as_bytes are the uninterpreted crlf() / utf8(): that the CRLF form still '
        'decodes is covered only by the bounded witness family (listed lengths, decoded by spec/ihex_sem.py)',
        'R5: `for (i, c) in s.chunks(16).enumerate()` is replaced by its std definition as an index loop',
        'slices are at most isize::MAX bytes long (Rust language guarantee) ; usize is 64 bit',
    ],
    trusted=['ihex 3.0 crate', 'std Vec / slice::to_vec contracts from vstd'],
    bounded=['witness family: image lengths 0,1,15,16,17,255,256,4097,65535,65536,65537 (quick) plus every length below 600 and the '
             '128 KiB / 1 MiB / 2 MiB boundaries (thorough) written by the real write_code_hex / write_eeprom_hex and decoded by an '
             'independent reader -- bounded, covers the assumed ihex rendering and CRLF conversion only on those inputs'],
)


# ------------------------------------------------------------------------------------------------ ENC: C01 C03 C04
def _enc_harnesses(filter_fn=None):
    def f(tier):
        import isa_gen
        hs = isa_gen.harness_names(tier)
        if filter_fn:
            hs = [h for h in hs if filter_fn(h[0])]
        return hs
    return f


def _enc_cex(slice_name, failure):
    import enc_replay
    return enc_replay.cex_for(slice_name, failure)


def _enc_witness_from_cex(f):
    import enc_replay
    return enc_replay.witness_from_cex(f)


def _is_rel_harness(h):
    import isa
    m = re.match(r'enc_one_(\w+?)_(\d+)$', h)
    if not m:
        return False
    return any(k in ('REL7', 'REL12') for r in isa.ROWS if r['mn'] == m.group(1) for k in r['ops'])


def witnesses_enc(only_rel=False):
    def run(tier, seed):
        """binding witnesses: one source line per ISA row and boundary operand tuple through the real grammar + pipeline"""
        import isa
        rnd = random.Random(seed or 11)
        jobs, exp, names = [], [], []

        def vals(kind):
            if kind in isa.IDX:
                return [None]
            cls, _, legal, _ = isa.KINDS[kind]
            if cls == 'reg':
                good = [r for r in range(32) if legal(r)]
                return [good[0], good[-1], rnd.choice(good)]
            if cls == 'expr':
                cand = [-129, -128, -1, 0, 1, 7, 8, 31, 32, 63, 64, 0x3f, 0x40, 0xbf, 0xc0, 255, 256, 65535, 65536, 4194303, 4194304]
                good = [k for k in cand if legal(k)]
                bad = [k for k in cand if not legal(k)]
                return [good[0], good[-1], rnd.choice(good)] + bad[:1] + bad[-1:]
            return ['rel'] * 5       # both limits, zero, one beyond each limit
        for r in isa.ROWS:
            if only_rel and not any(k in ('REL7', 'REL12') for k in r['ops']):
                continue
            per_op = [vals(k) for k in r['ops']]
            n = max([len(v) for v in per_op] + [1])
            for t in range(n):
                addr = [0, 5, 300][t % 3]
                txt, ors = [], []
                for kind, vs in zip(r['ops'], per_op):
                    v = vs[t % len(vs)]
                    if kind in isa.IDX:
                        if isa.IDX[kind][2]:
                            q = [0, 63, 17, 64, -1][t % 5]
                            txt.append('%s+%s' % (kind[0], q if q >= 0 else '(%d)' % q))
                            ors.append(('idx', kind, q))
                        else:
                            txt.append(kind)
                            ors.append(('idx', kind, 0))
                    elif v == 'rel':
                        lim = 64 if kind == 'REL7' else 2048
                        d = [-lim, lim - 1, 0, lim, -lim - 1][t % 5]
                        k = addr + 1 + d
                        txt.append(str(k) if k >= 0 else '(%d)' % k)
                        ors.append(('expr', k))
                    elif isa.KINDS[kind][0] == 'reg':
                        txt.append(('r%d' if t % 2 == 0 else 'R%d') % v)
                        ors.append(('reg', v))
                    else:
                        txt.append(('0x%x' % v) if (t % 2 and v >= 0) else (str(v) if v >= 0 else '(%d)' % v))
                        ors.append(('expr', v))
                avr8l = r['core'] == 'avr8l'
                src = ('.device ATtiny20\n' if avr8l else '') + ('.org %d\n' % addr if addr else '') + '%s %s\n' % (r['mn'] if t % 2 == 0 else r['mn'].upper(), ', '.join(txt))
                w = isa.encode(r['mn'], ors, addr, avr8l)
                jobs.append('build\n' + src)
                exp.append((addr, None if w is None else isa.le_bytes(w).hex()))
                names.append('asm:%s' % src.strip().replace('\n', ' ; '))
        # operands that reach the encoder through the grammar's literal forms and through macro arguments
        extra = [('ldi r16, 0xFFFFFFFFFFFFFFFF', None), ('andi r20, $FFFFFFFFFFFFFFF0', None), ('ldi r16, 18446744073709551615', None),
                 ('ldi r16, 0b' + '1' * 64, None), ('rjmp 0xFFFFFFFFFFFFFFFF', None), ('brne $FFFFFFFFFFFFFFFE', None), ('ldi r16, 0x7FFFFFFFFFFFFFFF', None),
                 ('.macro ld2x\n ldi r16, @0*2\n.endm\n ld2x 120+10', None), ('.macro ld2x\n ldi r16, @0*2\n.endm\n ld2x 60+3', '0ee7'),
                 ('.macro addw\n adiw r24, @0\n.endm\n addw (30+3)*2', None), ('.macro addw\n adiw r24, @0\n.endm\n addw (3+3)*2', '0c96'),
                 ('.macro jr\n rjmp @0-1\n.endm\n jr 1+1', '00c0'), ('.macro bit\n sbi 5, @0\n.endm\n bit 4+4', None), ('.macro bit\n sbi 5, @0\n.endm\n bit 9-2', '2f9a')]
        extra += [("ldi r16, 'A'", '01e4'), ("ldi r16, '\u00e9'", '09ee'), ("ldi r16, '\u03a9'", None), ("ldi r16, '\u20ac'", None), ("cpi r17, 'z' + 1", '1b37'),
                  (".macro lc\n ldi r16, @0\n.endm\n lc '\u03a9'", None)]
        # operands the ISA cannot encode stay rejected whatever device is selected (one device per distinct flash size)
        import device_tab
        try:
            rows = device_tab.parse_table(core.REPO)
        except Exception:
            rows = {}
        by_flash = {}
        for dname in sorted(rows):
            if 'Avr8l' not in rows[dname]['opts']:
                by_flash.setdefault(rows[dname]['flash_size'], dname)
        bad_lines = [(jobs[i], names[i]) for i in range(len(jobs)) if exp[i][1] is None and '.device' not in jobs[i]]
        for dname in sorted(by_flash.values()):
            for j, nm in (bad_lines if not only_rel else [b for b in bad_lines if any(w in b[0] for w in ('rjmp', 'rcall', 'br'))]):
                body = j[len('build\n'):]
                jobs.append('build\n.device %s\n%s' % (dname, body))
                exp.append((0, None))
                names.append('%s ; on %s' % (nm, dname))
        for text, want in extra:
            if only_rel and not any(w in text for w in ('rjmp', 'brne')):
                continue
            jobs.append('build\n' + text + '\n')
            exp.append((0, want))
            names.append('asm:%s' % text.replace('\n', ' ; '))
        res = replay.run_jobs(jobs)
        out = []
        for name, job, (addr, e), r in zip(names, jobs, exp, res):
            if r.get('status') == 'ok':
                got = r['code'][4 * addr:]
            elif r.get('status') == 'err':
                got = None
            else:
                got = r.get('status')
            ok = (got == e)
            out.append(WitnessResult(name, job, ok, got if got is not None else 'error: ' + r.get('err', '')[:120],
                                     e if e is not None else 'error', 'enc/'))
        return out
    return run


ENC_ASSUME = [
    'grammar: that the text of a mnemonic / register / pointer form is parsed to the Operation / Reg8 / IndexOps variant of the same name '
    '(peg grammar + strum from_str) is outside the verifiers; bound only by the native binding witnesses (one line per ISA row)',
    'ENC slice abstraction: an expression operand is represented by its value (Expr::Const(v) stands for any tree evaluating to v; '
    'Expr::run has its own contract in unit EXPR); process observes expressions only through run/get_byte/get_bit_index/get_r8',
    'R3: &dyn Context is the abstract view of its only implementor CommonContext (alias table, Avr8l flag, symbol lookup)',
    'R13: byteorder LittleEndian::write_u16 stores the low byte first (external crate)',
    'Reg8::number/SFlags::number: `self as u16` = declaration index -- checked bit-precisely by Kani (part of every leaf), assumed with its range in Verus',
    'oracle: spec/isa.py transcribes the AVR Instruction Set Manual; its self-consistency (no two canonical rows share a word) is re-checked on every thorough run',
]

PROPS['C01'] = dict(
    level_text='Proof: (Kani/CBMC, complete: loop-free code over the full value domain) for each of the 116 mnemonic x operand-signature '
               'forms, the real instruction::process returns exactly the word(s) of the AVR ISA table, low byte first, for ALL register '
               'numbers, i64 constants, displacements, pointer forms, addresses (u32), both cores and any .def alias binding, and Err '
               'outside the legal sets; (Verus, unbounded) the emitted length is 2*words(op) and info().len == words(op) for every operation.',
    level_note='assumes the grammar maps mnemonic/register text to the like-named enum variant (binding witnesses only), byteorder, '
               'and the leaf abstraction of expression operands; placement in the image is C02',
    technique='Kani contract harnesses (process == generated ISA oracle) on the extracted encoder + Verus structural contract',
    verus=['encv', 'expr', 'ctxu', 'pass1', 'pass2', 'link'],
    depends_on=['C05', 'C10', 'C02'],   # operands written as expressions or through .def aliases presuppose their value (C05) and the alias lookup (C10); the word of a relative instruction depends on the address pass 2 hands to the encoder (C02)
    kani=[dict(slice='enc', harnesses=_enc_harnesses(), cex=_enc_cex)],
    cex_replay=_enc_witness_from_cex,
    witnesses=witnesses_enc(),
    witness_key='enc',
    functions=['instruction::process', 'Operation::info', 'Reg8::number', 'SFlags::number', 'BranchT::number',
               'InstructionOps::get_r8/get_expr/get_index', 'Expr::get_byte', 'Expr::get_bit_index (src/instruction/*.rs, src/expr.rs)'],
    explanation='Kani: 116 harnesses, each one call of the extracted process() with symbolic operand values checked against the oracle '
                'generated from spec/isa.py (exact bytes on Ok, Err exactly outside the legal set). Verus: process() verbatim, contract '
                'over operand vectors of every length (count/kind/length/panic-freedom).',
    assumptions=ENC_ASSUME,
    trusted=['spec/isa.py (ISA table) and spec/isa_gen.py (oracle generator)'],
    bounded=['binding witnesses: ~500 concrete source lines (every ISA row at boundary operand values, both letter cases) through the '
             'real build_str, compared with the python oracle -- bounded, covers the assumed grammar mapping only on those inputs'],
    not_decided=['mnemonic/register recognition by the PEG grammar (assumed)', 'the decoder clause is implemented as a self-consistency '
                 'check of the oracle table (thorough tier), not as a contract on /repo code'],
)
PROPS['C04'] = dict(
    level_text='Proof: (Verus, unbounded) process() is Ok only if the operand count and the kind of every operand are the ones the ISA '
               'defines for the mnemonic -- for operand vectors of every length; (Kani, complete) within the right kinds it is Ok exactly '
               'on the legal value sets of the ISA table and then emits the reference encoding; get_byte/get_bit_index ranges are part of '
               'the extracted slice.',
    level_note='same assumptions as C01; where the ISA leaves a spelling open (displacement form under ld/st, plain forms under ldd/std) '
               'the clause is the one of observe_at: if Ok, the bytes are the reference encoding of the pointer form as written',
    technique='Verus postcondition Ok ==> shape_ok on the extracted process + Kani contract harnesses against the ISA oracle (Err side)',
    verus=['encv', 'expr'],
    depends_on=['C05', 'C10'],   # 'outside its field' is about the VALUE of the operand expression (C05); a register given through a .def alias or a value through a .set / .equ symbol presupposes the binding rules (C10)
    kani=[dict(slice='enc', harnesses=_enc_harnesses(), cex=_enc_cex), dict(slice='conv', harnesses=lambda tier: _conv_harnesses(tier))],
    cex_replay=_enc_witness_from_cex,
    witnesses=witnesses_enc(),
    witness_key='enc',
    functions=PROPS['C01']['functions'],
    explanation=PROPS['C01']['explanation'],
    assumptions=ENC_ASSUME,
    trusted=PROPS['C01']['trusted'],
    bounded=PROPS['C01']['bounded'],
)
def witnesses_c03(tier, seed):
    """relative branches to LABELS across instructions of both lengths, data and the one-word lds/sts of reduced cores: the displacement
    in the emitted word must be (position of the label's item) - (position of the branch) - 1, positions computed from the ISA sizes"""
    import isa
    base = witnesses_enc(only_rel=True)(tier, seed)
    rnd = random.Random(seed or 17)
    fill = [('nop', 1, 1), ('lds r16, 0x60', 2, 1), ('sts 0x60, r16', 2, 1), ('ldi r16, 1', 1, 1), ('.db 1, 2, 3', 2, 2), ('.dw 7', 1, 1), ('mov r16, r17', 1, 1),
            ('jmp 0', 2, None), ('call 0', 2, None), ('.db "ab"', 1, 1), ('rjmp PC+1', 1, 1), ('.dd 1', 2, 2),
            ('.db "\u00e9"', 1, 1), ('.db "a\u00e9"', 2, 2), ('.db "\u20ac", 1', 2, 2), ('.db "na\u00efve", 0', 4, 4)]
    jobs, exp, names = [], [], []

    def enc_br(mn, d):
        if mn == 'brne':
            return None if not -64 <= d <= 63 else 0xf401 | ((d & 0x7f) << 3)
        return None if not -2048 <= d <= 2047 else 0xc000 | (d & 0xfff)
    n = 60 if tier == 'quick' else 600
    for t in range(n):
        avr8l = t % 3 == 1
        dev = '.device ATtiny20\n' if avr8l else ('.device ATmega16\n' if t % 3 == 2 else '')
        fs = [f for f in fill if (f[2] if avr8l else f[1]) is not None]
        seq = [rnd.choice(fs) for _ in range(rnd.randint(0, 6))]
        # fixed interesting ones first
        if t < len(fs) * 2:
            seq = [fs[t // 2]] * (1 + t % 2)
        size = sum((f[2] if avr8l else f[1]) for f in seq)
        mn = 'brne' if t % 2 == 0 else 'rjmp'
        body = ''.join(' %s\n' % f[0] for f in seq)
        if t % 4 < 2:
            src = dev + ' %s target\n' % mn + body + 'target: nop\n'
            d, pos = size, 0
        else:
            src = dev + 'target:\n' + body + ' %s TARGET\n' % mn
            d, pos = -(size + 1), size
        w = enc_br(mn, d)
        jobs.append('build\n' + src)
        exp.append((pos, None if w is None else isa.le_bytes([w]).hex()))
        names.append('label:%s' % src.strip().replace('\n', ' ; '))
    res = replay.run_jobs(jobs)
    out = list(base)
    for name, job, (pos, e), r in zip(names, jobs, exp, res):
        got = r['code'][4 * pos:4 * pos + 4] if r.get('status') == 'ok' else (None if r.get('status') == 'err' else r.get('status'))
        out.append(WitnessResult(name, job, got == e, got if got is not None else 'error: ' + r.get('err', '')[:120], e if e is not None else 'error', 'pass1/'))
    return out


PROPS['C03'] = dict(
    level_text='Proof (Kani/CBMC, complete): for rjmp, rcall, brbs, brbc and the 18 br* aliases, for every target k: i64 and every '
               'instruction address (u32): process() is Ok iff d = k-(addr+1) (computed in 128-bit in the oracle) lies in the field range, '
               'and then the field is d mod 2^7 / 2^12 in the right bits with the right condition bits; otherwise Err, never a wrapped '
               'field, never a panic. That a label target has the value of the position where its item lands, that pass 2 passes the '
               'address of the item being emitted and sets pc to it are the C02 clauses of units PASS1 / PASS2 / LINK / ENCV (instruction '
               'lengths), which count for this property too.',
    level_note='grammar and expression parsing assumed; the composition pass 1 -> pass 2 is by matching clause pairs (unit LINK), as for C02',
    technique='Kani contract harnesses on the extracted relative-branch arms of process against the ISA oracle + Verus fold oracle of pass 2 (pc)',
    verus=['encv', 'pass1', 'pass2', 'link', 'expr', 'data'],
    depends_on=['C02', 'C05'],   # a label target presupposes that the label's value is where its item lands (C02); a pc-relative expression presupposes its value (C05)
    kani=[dict(slice='enc', harnesses=_enc_harnesses(_is_rel_harness), cex=_enc_cex, also_for=['C03'])],
    cex_replay=_enc_witness_from_cex,
    witnesses=witnesses_c03,
    functions=['instruction::process (Rjmp|Rcall and Br arms)', 'BranchT::number', 'Expr::get_bit_index'],
    explanation='22 Kani harnesses (every relative mnemonic) over all (k, addr) pairs: 2^64 x 2^32, symbolically.',
    assumptions=ENC_ASSUME,
    trusted=PROPS['C01']['trusted'],
    bounded=['binding witnesses at both range limits and one beyond, forward and backward, at three addresses',
             '60 (quick) / 600 (thorough) programs with a brne / rjmp to a label across one- and two-word instructions, odd .db lines and the one-word '
             'lds/sts of ATtiny20, forward and backward: displacement in the emitted word vs positions computed from the ISA sizes'],
)


# ------------------------------------------------------------------------------------------------ C05
def _step_harnesses(tier):
    import expr_gen
    return expr_gen.step_harness_names(tier)


def _conv_harnesses(tier):
    import expr_gen
    return expr_gen.conv_harness_names(tier)


def witnesses_c05(tier, seed):
    import expr_sem
    ws = expr_sem.witnesses(2500 if tier == 'quick' else 12000, seed or 3)
    # remainder values are not decided by a verifier (see bounded): add a dense grid for %
    grid = [0, 1, -1, 2, -2, 3, -3, 7, -7, 10, 255, -256, 65537, expr_sem.I64_MAX, expr_sem.I64_MIN + 1]
    for a in grid:
        for b in grid:
            ta = str(a) if a >= 0 else '(-%d)' % -a
            tb = str(b) if b >= 0 else '(-%d)' % -b
            for op in ('%', '/'):
                try:
                    e = expr_sem.binop(op, a, b)
                except expr_sem.Fail:
                    e = None
                ws.append(('%s %s %s' % (ta, op, tb), e))
    # literals at and beyond the 64-bit range, every radix (grammar): 'absurd numbers' fail the build, they do not wrap
    for lit, e in [('0x7FFFFFFFFFFFFFFF', expr_sem.I64_MAX), ('$7fffffffffffffff', expr_sem.I64_MAX), ('9223372036854775807', expr_sem.I64_MAX),
                   ('0x8000000000000000', None), ('$FFFFFFFFFFFFFFFF', None), ('0xFFFFFFFFFFFFFFFF', None), ('9223372036854775808', None),
                   ('18446744073709551615', None), ('0b' + '1' * 64, None), ('0b0' + '1' * 63, expr_sem.I64_MAX), ('exp2(62)', 1 << 62), ('exp2(63)', None),
                   ('exp2(64)', None), ('1 << 63', -(1 << 63)), ('1 << 64', None),
                   # leading zeros carry no meaning, however many there are
                   ('0x000000000000000ff', 255), ('$00000000000000001234', 0x1234), ('0b' + '0' * 70 + '101', 5), ('0' * 24 + '17', 15),
                   ('0' * 30, 0), ('0x' + '0' * 20 + '7fffffffffffffff', expr_sem.I64_MAX), ('0x' + '0' * 20 + '8000000000000000', None)]:
        ws.append((lit, e))
    jobs = ['build\n.dq %s\n' % w[0] for w in ws]
    # the same expressions handed through a macro argument (rendered by Display, pasted into the body, parsed again): the value the
    # caller wrote must arrive, whatever stands next to the parameter in the body
    via = [w for w in ws[:(300 if tier == 'quick' else 3000)] if w[1] is not None and abs(w[1]) < (1 << 61)]
    for op in ('*', '/', '%', '+', '-', '<<', '>>', '<', '<=', '>', '>=', '==', '!=', '&', '^', '|', '&&', '||'):
        for x, y in ((5, 5), (5, 4), (4, 5), (0, 0), (1, 0), (0, 1), (6, 3)):
            try:
                via.append(('%d %s %d' % (x, op, y), expr_sem.binop(op, x, y)))
            except expr_sem.Fail:
                pass
    for src, e in via:
        jobs.append('build\n.macro m\n.dq @0\n.dq 1-@0\n.dq @0*2\n.endm\n m %s\n' % src)
    # 'division or remainder by zero and arithmetic overflow fail the build instead of producing a value' -- in EVERY place an expression
    # is consumed, not only in .dq: a consumer that swallows the error (a default, a skipped directive) produces a build
    bad = ['1/0', '1%0', '9223372036854775807+1', '-(-9223372036854775807-1)', '9223372036854775807*2', '1<<64', 'exp2(64)']
    consumers = ['.if %s\n nop\n.endif\n', '.if 0\n nop\n.elif %s\n nop\n.endif\n', '.if 1 || %s\n nop\n.endif\n', '.db %s\n', '.dw %s\n', '.dd %s\n',
                 ' ldi r16, %s\n', ' ldi r16, low(%s)\n', ' rjmp %s\n', '.equ a = %s\n.db a\n', '.set a = %s\n.db a\n', '.org %s\n nop\n',
                 '.macro m\n.if @0\n nop\n.endif\n.endm\n m %s\n', '.macro m\n.dw @0\n.endm\n m %s\n']
    cjobs = ['build\n' + c % b for c in consumers for b in bad]
    jobs += cjobs
    res = replay.run_jobs(jobs)
    out = []
    for job, r in zip(cjobs, res[len(jobs) - len(cjobs):]):
        out.append(WitnessResult('expr-error-must-fail-the-build:' + job[6:].replace('\n', ' / '), job, r.get('status') == 'err',
                                 dict((k, r.get(k)) for k in ('status', 'code', 'err')), 'build fails', 'expr/'))
    for (src, e), r in zip(ws, res):
        if r.get('status') == 'ok':
            got = int.from_bytes(bytes.fromhex(r['code']), 'little', signed=True)
        else:
            got = None if r.get('status') == 'err' else r.get('status')
        out.append(WitnessResult('expr:' + src, 'build\n.dq %s\n' % src, got == e, got if got is not None else 'error ' + r.get('err', '')[:100],
                                 e if e is not None else 'build fails', 'expr/'))
    for (src, e), job, r in zip(via, jobs[len(ws):], res[len(ws):]):
        want = [e, 1 - e, e * 2]
        if r.get('status') == 'ok' and len(r['code']) == 48:
            got = [int.from_bytes(bytes.fromhex(r['code'][16 * k:16 * k + 16]), 'little', signed=True) for k in range(3)]
        else:
            got = r.get('status') + ': ' + str(r.get('err', ''))[:80]
        out.append(WitnessResult('expr-as-macro-argument:' + src, job, got == want, got, want, 'expr/'))
    return out


PROPS['C05'] = dict(
    level_text='Proof: (Verus, unbounded) Expr::run/run_nested verbatim: terminates, never panics, and agrees with the recursive oracle '
               'eval() built from the operator table on expression trees of every shape and depth (one labelled clause per operator), '
               'incl. checked arithmetic, zero divisor, shift-amount and nesting-limit failures and identifier lookup; (Kani, complete) '
               'each operator/function step of the same function equals an independent i128 div/mod twin for all i64 operands. '
               'Precedence, associativity and literal forms live in the PEG grammar and are only bound by native witnesses.',
    level_note='assumes: grammar (precedence!/e_const), to_lowercase/checked_neg std contracts, str injectivity axiom, the vstd '
               'specification of checked_div/checked_rem (rust_div/rust_rem, proved here to be THE truncating quotient/remainder); log2 unspecified',
    technique='Verus recursion/termination proof against a spec interpreter + Kani per-operator step harnesses (recursion stubbed, R14)',
    verus=['expr', 'dir'],   # dir: the .if/.elif arm is a consumer of expression values -- an evaluation error must fail the build there too (#if)
    kani=[dict(slice='exprstep', harnesses=_step_harnesses), dict(slice='conv', harnesses=_conv_harnesses)],
    witnesses=witnesses_c05,
    functions=['Expr::run', 'Expr::run_nested', 'Expr::get_byte/get_bit_index/get_words/get_double_words/get_quad_words (src/expr.rs)'],
    explanation='eval() in contracts/expr.vspec is the oracle (operator table of the property); agrees(run(e), eval(e)) is proved by '
                'induction on the tree with decreases (nesting budget, tree). The Kani step slice replaces the recursive calls by a stub '
                'returning the child value (R14) and compares every operator except / and % with an independent twin for all 2^128 operand pairs; / and % are pinned by Verus '
                '(vstd rust_div/rust_rem, shown by lemma to be the unique q, r with a == q*b + r, |r| < |b|, sign(r) == sign(a)).',
    assumptions=[
        'grammar: precedence, associativity, literal radix forms are in peg::parser! (document.rs) -- outside both verifiers; bound only by '
        '2500 (quick) / 12000 (thorough) generated expressions (every operator on a boundary grid, every ordered operator pair without '
        'parentheses, random trees with minimal parentheses and mixed literal forms) evaluated natively through `.dq` and compared '
        'with spec/expr_sem.py',
        'Verus treats bit operators definitionally (same expression in spec and code); their independent meaning (div/mod twin) is the Kani step',
        'R14 (Kani step only): recursive calls replaced by a stub returning the child value; the recursion itself is the Verus proof',
        'vstd specs of checked_add/sub/mul/div/rem; assumed: i64::checked_neg, str::to_lowercase (uninterpreted lower()), str view injectivity',
        'log2 is not in the operator table of the property: any outcome accepted (panic-freedom and termination of its loop are proved)',
    ],
    trusted=['spec/expr_sem.py (python twin used for the grammar witnesses)'],
    bounded=['bit-precise cross-check of / and %: no Kani harness (64-bit divider equivalences did not finish reliably: 4 min in one run, '
             '> 25 min in another); their values are proved by Verus for all operands against vstd rust_div/rust_rem + lemmas '
             'rust_divrem_is_truncating / trunc_unique / divrem_fits, and cross-checked on a 15x15 native boundary grid against spec/expr_sem.py'],
    not_decided=['precedence/associativity/literals (grammar): witnesses only'],
)


# ------------------------------------------------------------------------------------------------ C11
def witnesses_c11(tier, seed):
    import inc_sem
    ws = inc_sem.witnesses(60 if tier == 'quick' else 600, seed or 4)
    jobs = []
    for name, job, exp in ws:
        jobs.append(job)
        jobs.append('build\n' + exp[1] if exp[0] == 'same_as' else 'build\nnop\n')
    res = replay.run_jobs(jobs, timeout_per_job=30)
    out = []
    keys = ('status', 'code', 'eeprom', 'ram_filling', 'messages', 'err')
    strip = lambda ms: [re.sub(r' in line: \d+$', '', m) for m in (ms or [])]     # line numbers are per file: not comparable with the pasted text
    for i, (name, job, exp) in enumerate(ws):
        r, rf = res[2 * i], res[2 * i + 1]
        obs = dict((k, r.get(k)) for k in keys if k in r)
        if exp[0] == 'same_as':
            if r.get('status') == 'ok' and rf.get('status') == 'ok':
                ok = all(r.get(k) == rf.get(k) for k in ('code', 'eeprom', 'ram_filling')) and strip(r.get('messages')) == strip(rf.get('messages'))
            else:
                ok = r.get('status') == 'err' and rf.get('status') == 'err'    # e.g. a file included twice defines a label twice: fails either way
            out.append(WitnessResult('include:' + name, job, ok, dict(with_files=obs, pasted=dict((k, rf.get(k)) for k in keys if k in rf)),
                                     'the same result as the program with the lines of every included file pasted in place:\n' + exp[1], 'inc/'))
        elif exp[0] == 'err_naming':
            ok = r.get('status') == 'err' and exp[1] in r.get('err', '')
            out.append(WitnessResult('include:' + name, job, ok, obs, 'the build fails with an error naming %s' % exp[1], 'inc/'))
        else:
            out.append(WitnessResult('include:' + name, job, r.get('status') == 'err', obs, 'the build fails (no crash, no hang)', 'inc/'))
    return out


PROPS['C11'] = dict(
    level_text='Proof (Verus, unbounded) over an assumed model of std::path / std::fs / BTreeSet<PathBuf>: parse_file_internal verbatim -- the file '
               'is taken from a place the property allows (the path as written if a file is there, else the name joined to one of the known '
               'directories where a file is; never anywhere else; found nowhere or unreadable => Err), its lines are parsed by the same line '
               'loop on the SAME shared state handles (so it is a paste: everything defined inside is visible afterwards) with the search '
               'paths known so far plus its own directory, the paths its .includepath lines add are known to the including file afterwards, '
               'its own directory is not, nesting is budgeted (a file including itself fails instead of overflowing the stack); the '
               '.include arm hands over exactly name / paths / handles / depth+1 and takes the added paths back; the .includepath arm adds '
               'an absolute path as written and a relative one joined to the directory of the file the directive is in, and cannot panic; '
               '.exit ends only the current text (unit DIR #exit + COND driver fold).',
    level_note='"exactly the effect of pasting" across two whole parses is relational: decided only on generated include trees built on disk and '
               'compared with their flattened text (bounded). Which of several directories holding the same name wins is left open, as in the '
               'property. The model of paths (join / parent / is_relative uninterpreted) and of the file system is assumed, not verified.',
    technique='Verus contracts on parse_file_internal and on the two directive arms lifted mechanically out of Directive::parse (R19), over an assumed std::path/fs model',
    verus=['inc', 'dir', 'cond', 'mexp'],   # mexp: the entry points parse_file / parse_str and ParseContext::new (what a parse starts from)
    witnesses=witnesses_c11,
    functions=['parser::parse_file_internal', 'Directive::parse (Include arm, IncludePath arm: lifted by R19; Exit arm in unit DIR)', 'parser::parse_iter (EndFile)'],
    explanation='found_ok / file_ctx / pfi_outcome / pfi_rel in contracts/inc.vspec are the oracle. ParseContext is extracted verbatim (only the Rc/RefCell '
                'field types are renamed to opaque handle types), so the destructuring, both struct literals and the hand-over of every field '
                'are the real text.',
    assumptions=[
        'std::path (PathBuf::from/push/parent/is_relative/as_path/to_path_buf, PartialEq), std::fs (exists, File::open, read_to_string), '
        'BTreeSet<PathBuf> (iter, difference, get, insert, contains, clone) and RefCell (borrow, borrow_mut, replace, into_inner, clone) are '
        'prelude stubs stating their documented behaviour over uninterpreted path_join / path_parent / path_is_relative / fs_exists / '
        'fs_can_open / fs_readable / fs_content; the empty path names no file',
        'A-fs: the file system does not change between exists() and File::open() of one lookup',
        'A-alias (R9): the Rc handles (segments, macros, messages, symbol tables) are shared by every context of one build, so lines parsed '
        'through a context built from the same handles act on the same state; the handles are opaque values here, only their hand-over is checked',
        '`parse` (the line loop over one text, units COND/DIR) is a stub: its result and the search paths it leaves are uninterpreted functions '
        'of (text, context value); precondition include_depth <= MAX_NESTED_INCLUDES, which parse_file_internal establishes',
        'R18: `for x in set.iter()` / `a.difference(&b)` as an index loop over the materialised items (each element once, order unspecified)',
        'R19: the two arms are lifted out of Directive::parse into functions whose parameters are the bindings of the destructured context',
        'ParseContext::new / parse_file / parse_str (construction of the first context: depth 0, the given directories) are read, not verified',
    ],
    trusted=['spec/inc_sem.py (tree generator and flattening model of the documented search rule)'],
    bounded=['15 fixed trees (definitions visible afterwards, .exit inside an included file, .includepath inside an included file, relative '
             '.includepath in a subdirectory, caller-supplied relative and absolute directories, absolute .includepath, 12-deep nesting, the '
             'same file twice, segments switched inside, missing file named in the error, self-inclusion and a cycle fail without crash, '
             '.includepath with / as working directory) + 60 (quick) / 600 (thorough) generated trees with unique base names, every include '
             'written in one of the documented ways, built on disk and compared with the flattened program'],
    not_decided=['priority among several directories that hold a file of the same name (the property does not fix it)',
                 'a `.includepath` executed inside a macro body stays local to that expansion (macro_expand clones the path set): not covered'],
)


# ------------------------------------------------------------------------------------------------ C02 / C06
def witnesses_layout(tier, seed, with_org=True):
    import layout_sem
    ws = layout_sem.witnesses(300 if tier == 'quick' else 3000, seed or 9)
    jobs = ['build\n' + w[0] for w in ws]
    # fixed boundary cases
    fixed = [
        ('org_zero_after_code', 'nop\n.org 0\nnop\n', 'error'),     # `.org 0` after code must not silently continue at the running offset
        ('org_at_running_offset', 'nop\nnop\n.org 2\nl: nop\n.dw l\n', dict(code='0000000000000200')),
        ('org_gap_zero_filled', 'nop\n.org 4\nl: ldi r16, 1\n.dw l\n', dict(code='000000000000000001e00400')),
        ('org_below_offset_rejected', 'nop\nnop\nnop\n.org 2\nnop\n', 'error'),
        # the operand of .org is an expression: a symbol of a part file (`.org OVF0addr`), arithmetic, parentheses -- its value is the place;
        # one that cannot be evaluated (or is no expression at all) fails the build, it is never silently ignored
        ('org_equ_symbol', '.equ vec = 4\n.org vec\nl: nop\n.dw l\n', dict(code='0000000000000000' + '0000' + '0400')),
        ('org_arithmetic', '.org 2+2\nl: nop\n.dw l\n', dict(code='0000000000000000' + '0000' + '0400')),
        ('org_symbol_arithmetic_eeprom', '.equ base = 2\n.eseg\n.org base*2+1\nl: .db 7\n.cseg\n.dw l\n', dict(code='0500', eeprom='000000000007')),
        ('org_division_by_zero_fails', '.org 1/0\nnop\n', 'error'),
        ('org_unknown_symbol_fails', '.org nowhere\nnop\n', 'error'),
        ('org_string_fails', '.org "abc"\nnop\n', 'error'),
        ('db_odd_twice', '.db 1\n.db 2\nl: .dw l\n', dict(code='010002000200')),
        ('eeprom_no_pad', '.eseg\n.db 1\n.db 2, 3, 4\nl: .dw l\n.byte 3\n.db 9\n', dict(eeprom='0102030404000000' + '0009'[2:] if False else '01020304040000000009')),
        ('dseg_labels', '.dseg\na: .byte 3\nb: .byte 2\n.cseg\n.dw a, b\n', dict(code='60006300', ram_filling=5)),
        ('string_in_dw_fails', '.dw "ab"\n', 'error'),
        ('db_in_dseg_fails', '.dseg\n.db 1\n', 'error'),
        ('byte_in_cseg_fails', '.byte 2\n', 'error'),
        # items produced by macro expansion are laid out like written ones
        ('macro_right_after_org', ' nop\n.macro vec\n rjmp @0\n.endm\n.org 0x4\n vec start\n.org 0xa\nstart: nop\n.dw start\n',
         dict(code='0000' + '0000' * 3 + '05c0' + '0000' * 5 + '0000' + '0a00')),
        ('label_after_nested_macro_behind_segment_switch', '.macro inner\n ldi r16, 1\n ldi r17, 2\n.endm\n.macro outer\n nop\n.dseg\n.byte 1\n.cseg\n inner\n.endm\n outer\nafter: nop\n.dw after\n',
         dict(code='000001e012e000000300')),
        ('label_after_macro_with_org_inside', '.macro far\n nop\n.org 0x6\n nop\n.endm\n far\nafter: .dw after\n', dict(code='0000' + '0000' * 5 + '0000' + '0700')),
        # data directives reached through a macro body that starts with a segment switch
        ('eeprom_data_from_macro_body', 'nop\n.macro tbl\n.eseg\n.db 1, 2, "abc"\n.dw 0x1234\n.cseg\n.endm\n tbl\n ret\n', dict(code='00000895', eeprom='01026162633412')),
        ('dseg_reservation_from_macro_body', 'nop\n.macro var\n.dseg\nv: .byte 3\n.cseg\n.endm\n var\n ldi r16, low(v)\n', dict(code='000000e6', ram_filling=3)),
        ('flash_data_from_macro_body_after_eseg', '.macro both\n.eseg\n.db 7\n.cseg\n.db 1, 2, 3\n.endm\n both\nl: .dw l\n', dict(code='010203000200', eeprom='07')),
        # values at and beyond the element widths, written as literals of every radix (the literal forms are grammar)
        ('db_range_limits', '.db -128, 255, 0xff, $80, 0b11111111, 0377\n', dict(code='80ffff80ffff')),
        ('db_256_fails', '.db 256, 0\n', 'error'), ('db_hex_100_fails', '.db 0x100, 0\n', 'error'), ('db_minus_129_fails', '.db -129, 0\n', 'error'),
        ('db_hex_literal_of_64_ones_fails', '.db 0xFFFFFFFFFFFFFFFF, 0\n', 'error'), ('db_dollar_literal_beyond_i64_fails', '.db $FFFFFFFFFFFFFF80, 0\n', 'error'),
        ('dw_hex_literal_beyond_i64_fails', '.dw 0xFFFFFFFFFFFF8000\n', 'error'), ('dd_hex_literal_beyond_i64_fails', '.dd 0xFFFFFFFFFFFFFFFE\n', 'error'),
        ('dq_hex_2_63_fails', '.dq 0x8000000000000000\n', 'error'), ('dq_decimal_2_63_fails', '.dq 9223372036854775808\n', 'error'),
        ('dq_binary_64_ones_fails', '.dq 0b' + '1' * 64 + '\n', 'error'), ('dq_octal_beyond_i64_fails', '.dq 01' + '0' * 21 + '\n', 'error'),
        ('dq_i64_max_all_radixes', '.dq 0x7FFFFFFFFFFFFFFF\n.dq $7fffffffffffffff\n.dq 9223372036854775807\n.dq 0b0' + '1' * 63 + '\n',
         dict(code='ffffffffffffff7f' * 4)),
        ('dw_range_limits', '.dw -32768, 65535, 0xffff\n', dict(code='0080ffffffff')), ('dw_65536_fails', '.dw 65536\n', 'error'),
        ('dd_range_limits', '.dd -2147483648, 4294967295\n', dict(code='00000080ffffffff')), ('dd_2_32_fails', '.dd 4294967296\n', 'error'),
    ]
    if not with_org:
        fixed = [f for f in fixed if not f[0].startswith('org_zero')]
    jobs += ['build\n' + f[1] for f in fixed]
    res = replay.run_jobs(jobs)
    out = []
    for (src, code, ee, ram), r in zip(ws, res):
        ok = r.get('status') == 'ok' and r['code'] == code.hex() and r['eeprom'] == ee.hex() and r['ram_filling'] == ram
        out.append(WitnessResult('layout:' + src.strip().replace('\n', ' ; ')[:80], 'build\n' + src, ok,
                                 dict((k, r.get(k)) for k in ('status', 'code', 'eeprom', 'ram_filling', 'err')),
                                 dict(code=code.hex(), eeprom=ee.hex(), ram_filling=ram), 'layout'))
    for (name, src, exp), r in zip(fixed, res[len(ws):]):
        if exp == 'error':
            ok = r.get('status') == 'err'
        else:
            ok = r.get('status') == 'ok' and all(r.get(k) == v for k, v in exp.items())
        out.append(WitnessResult(name, 'build\n' + src, ok, dict((k, r.get(k)) for k in ('status', 'code', 'eeprom', 'ram_filling', 'err')), exp, 'org' if name.startswith('org_zero') else 'layout'))
    return out


LAYOUT_ASSUME = [
    'segment creation by .org/.cseg/.dseg/.eseg (Directive::parse) and the parser are not under contract: bound by the layout witnesses '
    '(generated programs with interleaved segments, .org gaps, odd .db lists, label tables; reference model spec/layout_sem.py)',
    'composition pass 1 -> pass 2: unit LINK proves pass1_post (= clauses #seg_count #segs_ok #segs_out of build_pass_1) ==> segs_wf2 (the '
    'precondition of build_pass_2) and, per prefix, total2(handed-over items) == total(source items): pass 2 emits every item at the address '
    'pass 1 accounted for it.  Still assumed there: no Operation::Custom reaches pass 2 (pass 0 expands or rejects every macro call: unit PASS0 '
    'for the splice, macro_expand is a stub), every device memory is below 2^29 units (all table rows, checked in C12), and that '
    'build_from_parsed hands the result of pass 1 to pass 2 unchanged (unit BUILD treats the passes as uninterpreted functions)',
    'R9 / A-alias: tables behind Rc<RefCell<..>> are modelled as one ghost record owned by the build; stubs for set_label/set_special/set_def/'
    'exist/defs.remove/sets.get/sets.insert state the HashMap semantics of context.rs (proved for the getters in unit CTX where claimed)',
    'process / Device::check_operation / GetData / Expr::run appear in PASS2 as stubs carrying the contracts proved in ENC/ENCV, DEV, DATA, EXPR',
    'std: String::len/as_bytes = UTF-8 bytes (uninterpreted utf8()), slice::to_vec, Vec::extend (R4), "lit".to_string() (R15), to_lowercase',
    'machine memory: the byte counts of all operands of one Vec<Operand> add up to less than 2^64 (axiom mem_bound)',
]
PROPS['C02'] = dict(
    level_text='Proof (Verus, unbounded, induction over items and segments): pass 1 (verbatim) assigns every label the segment start plus '
               'the oracle size of all items before it, places segments at the running offset of their memory or their .org address, '
               'rejects overlap and capacity overflow, and hands pass 2 the sized items; pass 2 (verbatim) is proved equal to a fold '
               'oracle: each item emitted at its own address (pc and the address passed to process are that address), fragments '
               'appended after zero-filled gaps at 2*address / address, nothing emitted is overwritten; emitted sizes equal the sizes '
               'pass 1 accounted for (bridges from ENCV #length/#words and DATA #len_*); unit LINK proves that what pass 1 guarantees '
               'implies what pass 2 requires and that both passes agree on the address of every item.',
    level_note='parser/segment creation: unit DIR #org #seg_switch + witnesses; `.org 0` after code is a recorded finding',
    technique='Verus loop invariants on extracted pass_1_internal/build_pass_1/pass_2_internal/build_pass_2 against recursive layout and fold oracles',
    verus=['pass1', 'pass2', 'link', 'data', 'encv', 'dir', 'pass0'],
    depends_on=['C09'],   # the items whose positions the property speaks of include those a macro expansion produces: the splice of pass 0 is presupposed
    witnesses=witnesses_layout,
    witness_key='layout',
    functions=['builder::pass1::{build_pass_1, pass_1_internal, next_address}', 'builder::pass2::{build_pass_2, pass_2_internal}',
               'directive::{Operand::*, GetData for Vec<Operand>}', 'instruction::process (length), Operation::info'],
    explanation='Oracles: contracts/layout.vinc (item sizes from the property text), labels_after/prefix_ok/offs (pass 1), run2/runsegs folds (pass 2). '
                'Derived lemmas (label_value, labels_distinct, old_labels_kept) turn the recursive facts into the quantified statements of C02/C10.',
    assumptions=LAYOUT_ASSUME,
    trusted=['spec/layout_sem.py (reference layout model for the witnesses)'],
    bounded=['layout witnesses: 300 (quick) / 3000 (thorough) generated programs + 10 fixed boundary programs through build_str'],
)
PROPS['C06'] = dict(
    level_text='Proof: (Verus, unbounded) GetData for Vec<Operand> returns the operands\' bytes concatenated in source order with exact '
               'element width, strings as their UTF-8 bytes in .db and Err in .dw/.dd/.dq, actual_len = byte count; pass 1 pads an odd '
               '.db list in flash with exactly one zero operand and nothing in EEPROM, rejects data in .dseg and .byte in .cseg; pass 2 '
               'emits .byte n as n zero bytes; (Kani, complete) get_byte/get_words/get_double_words/get_quad_words give the little-endian '
               'bytes of v mod 2^w exactly on the fit ranges for all i64.',
    level_note='as C02; the element conversion is split: range half in Verus (unit EXPR), byte values in Kani (conv) on the leaf view of expressions',
    technique='Verus list-fold invariants on the extracted GetData impl + Kani conversion harnesses + pass1/pass2 contracts',
    verus=['data', 'pass1', 'pass2', 'expr', 'ctxu'],
    depends_on=['C05', 'C10', 'C09'],   # the operands are expressions and symbols: their values (C05) and bindings (C10) are presupposed; a data directive written inside a macro body gets its operands through the expansion (C09)
    kani=[dict(slice='conv', harnesses=lambda tier: _conv_harnesses(tier))],
    witnesses=lambda tier, seed: witnesses_layout(tier, seed, with_org=False),
    witness_key='layout-noorg',
    functions=['directive::{Operand::len/get_bytes/get_words/get_double_words/get_quad_words, GetData for Vec<Operand>}',
               'expr::Expr::get_byte/get_words/get_double_words/get_quad_words', 'pass 1 / pass 2 data arms'],
    explanation='list_bytes/op_bytes/alen in contracts/data.vspec are the oracle; elem_bytes is the uninterpreted bridge to the conversions.',
    assumptions=LAYOUT_ASSUME,
    trusted=['spec/layout_sem.py'],
    bounded=PROPS['C02']['bounded'],
)


# ------------------------------------------------------------------------------------------------ C12 / C13
def _dev_harnesses(tier):
    import device_feat
    return device_feat.harness_names(tier)


def witnesses_c12(tier, seed):
    import device_tab
    rows = device_tab.parse_table(replay.REPO)
    decl = {}
    for dev, what, tv, dv, fn in device_tab.pairs(replay.REPO):
        decl.setdefault(dev, {})[what.split(' ')[0]] = dv
    names = sorted(rows)
    if tier == 'quick':
        rnd = random.Random(seed or 5)
        names = sorted(set(rnd.sample(names, 12) + ['ATtiny10', 'ATtiny20', 'ATmega2560', 'ATmega103', 'ATmega48']))
    jobs, meta = [], []
    for n in names:
        r = rows[n]
        cap = dict(flash=decl.get(n, {}).get('flash_size', r['flash_size']), ee=decl.get(n, {}).get('eeprom_size', r['eeprom_size']),
                   ram=decl.get(n, {}).get('ram_size', r['ram_size']))
        for mem, at, over in (('flash', '.org %d\nnop\n' % (cap['flash'] - 1), '.org %d\nnop\n' % cap['flash']),
                              ('eeprom', '.eseg\n.byte %d\n' % cap['ee'], '.eseg\n.byte %d\n' % (cap['ee'] + 1)),
                              ('ram', '.dseg\n.byte %d\n' % cap['ram'], '.dseg\n.byte %d\n' % (cap['ram'] + 1))):
            jobs.append('build\n.device %s\n%s' % (n, at)); meta.append((n, mem, 'at capacity', 'ok', cap))
            jobs.append('build\n.device %s\n%s' % (n, over)); meta.append((n, mem, 'one above', 'err', cap))
    extra = [('unknown_device', 'build\n.device ATnothing\nnop\n', 'err'), ('second_device', 'build\n.device ATmega8\n.device ATmega16\nnop\n', 'err'), ('second_device_same_row', 'build\n.device ATtiny25\n.device ATtiny2313\nnop\n', 'err'),
             ('same_device_twice', 'build\n.device ATmega8\n.device ATmega8\nnop\n', 'err'),
             ('default_sizes', 'build\nnop\n', 'ok'), ('ram_filling_extent', 'build\n.device ATmega48\n.dseg\n.byte 10\n.org 0x120\n.byte 3\n', 'ok'),
             # a device selected where it is executed late: inside a macro body (pass 0) / an included file
             ('device_selected_in_macro', 'build\n.macro chip\n.device ATmega48\n.endm\n chip\n nop\n', 'ok'),
             ('device_selected_in_macro_limit', 'build\n.macro chip\n.device ATtiny13\n.endm\n chip\n.org 0x200\n nop\n', 'err'),
             ('device_selected_in_include', 'tree main.asm \n@@ main.asm\n.include "chip.inc"\n nop\n@@ chip.inc\n.device ATmega48\n', 'ok'),
             # capacity reached by a macro expansion placed by .org
             ('macro_after_org_at_flash_end', 'build\n.device ATtiny13\n.macro one\n nop\n.endm\n.org 0x1ff\n one\n', 'ok'),
             ('macro_after_org_beyond_flash_end', 'build\n.device ATtiny13\n.macro two\n nop\n nop\n.endm\n.org 0x1ff\n two\n', 'err'),
             ('macro_after_org_past_flash', 'build\n.device ATtiny13\n.macro one\n nop\n.endm\n.org 0x200\n one\n', 'err'),
             # a memory filled exactly to capacity through data - .org - data (what pass 2 pads must be what pass 1 counted)
             ('eeprom_full_after_org', 'build\n.device ATmega48\n.eseg\n.db 1, 2\n.org 0xff\n.db 9\n', 'ok'),
             ('eeprom_one_past_after_org', 'build\n.device ATmega48\n.eseg\n.db 1, 2\n.org 0xff\n.db 9, 10\n', 'err'),
             ('flash_full_after_org', 'build\n.device ATtiny13\n nop\n nop\n.org 0x1ff\n nop\n', 'ok'),
             ('flash_one_past_after_org', 'build\n.device ATtiny13\n nop\n nop\n.org 0x1ff\n nop\n nop\n', 'err'),
             ('org_then_same_segment_directive_keeps_origin', 'build\n.device ATmega48\n.org 0x7ff\n.cseg\n nop\n nop\n', 'err')]
    jobs += [e[1] for e in extra]
    res = replay.run_jobs(jobs, timeout_per_job=30)
    out = []
    for (n, mem, where, want, cap), job, r in zip(meta, jobs, res):
        ok = (r.get('status') == want)
        if ok and want == 'ok':
            ok = (r['flash_size'] == rows[n]['flash_size'] and r['eeprom_size'] == rows[n]['eeprom_size'] and r['ram_size'] == rows[n]['ram_size'])
            if mem == 'ram':
                ok = ok and r['ram_filling'] == cap['ram']
        out.append(WitnessResult('capacity:%s:%s:%s' % (n, mem, where), job, ok, dict((k, r.get(k)) for k in ('status', 'flash_size', 'eeprom_size', 'ram_size', 'ram_filling', 'err')), want, 'build/'))
    for (name, job, want), r in zip(extra, res[len(meta):]):
        ok = r.get('status') == want
        if name == 'default_sizes':
            ok = ok and (r['flash_size'], r['eeprom_size'], r['ram_size']) == (4194304, 65536, 8388608)
        if name == 'ram_filling_extent':
            ok = ok and r['ram_filling'] == 0x123 - 0x100
        if name in ('device_selected_in_macro', 'device_selected_in_include'):
            ok = ok and (r['flash_size'], r['eeprom_size'], r['ram_size']) == (rows['ATmega48']['flash_size'], rows['ATmega48']['eeprom_size'], rows['ATmega48']['ram_size'])
        if name == 'macro_after_org_at_flash_end':
            ok = ok and len(r['code']) == 2 * 2 * 0x200
        out.append(WitnessResult(name, job, ok, dict((k, r.get(k)) for k in ('status', 'flash_size', 'eeprom_size', 'ram_size', 'ram_filling', 'err')), want, 'build/'))
    return out


PROPS['C12'] = dict(
    level_text='Proof: (Verus) build_from_parsed verbatim: Ok iff the three passes are Ok and code <= 2*flash, eeprom <= eeprom_size, '
               'ram_filling <= ram_size of the device selected once pass 0 has run (a .device inside a macro body is executed then), no overflow, '
               'no truncation, reported sizes are that device\'s; pass 1 '
               'stops at the same capacities and ram_filling = end of data - RAM start (unit PASS1); 246 generated obligations: every table '
               'row is in range and equals each figure its shipped part file declares; (Kani) Device::new defaults.',
    level_note='the `.device` arm of Directive::parse (lookup, single-selection rule, frame) is clause #device of unit DIR; '
               '`.byte <expression>` silently reserving nothing is pinned by the test suite (known finding)',
    technique='Verus contract on the extracted limit check + generated table/part-file obligations + Kani harness for Device::new',
    verus=['build', 'devtab', 'pass1', 'dir', 'encv', 'pass2', 'link'],
    depends_on=['C02'],   # 'fills flash exactly to capacity' presupposes the sizes and positions of the layout property (instruction lengths, padding)
    kani=[dict(slice='dev', harnesses=lambda tier: [h for h in _dev_harnesses(tier) if h[0] == 'dev_new'])],
    witnesses=witnesses_c12,
    functions=['builder::build_from_parsed', 'builder::pass1::{build_pass_1, pass_1_internal, next_address}', 'Device::new', 'DEVICES rows (generated)'],
    explanation='fits() in contracts/build.vspec is the oracle (exactly at capacity builds, one unit more fails).',
    assumptions=['the three passes appear as stubs whose outcome is an uninterpreted function of (input, tables, device); their own contracts are units PASS1/PASS2',
                 'Directive::Device arm: witnesses only (unknown device, second device)', 'includes/*def.inc are parsed by spec/device_tab.py (regex over .equ lines)'],
    trusted=['spec/device_tab.py'],
    bounded=['capacity witnesses: quick: 17 devices, thorough: all 54, x 3 memories x {at capacity, one above} through build_str'],
)
def witnesses_c13(tier, seed):
    """every device of the table x one source line per ISA row (valid operands): rejected exactly when the row's own flags (re-read from
    src/device.rs: they are the reference of the property) remove the instruction or form; otherwise the bytes of the build without
    .device -- except lds/sts on reduced cores (one-word form).  Plus label positions after one-word lds/sts."""
    import isa, device_feat, device_tab
    rows = device_tab.parse_table(core.REPO)
    rnd = random.Random(seed or 19)
    lines = []
    for r in isa.ROWS:
        if r['core'] == 'avr8l':
            continue
        txt, uses_x, uses_y = [], False, False
        for kind in r['ops']:
            if kind in isa.IDX:
                uses_x |= kind[0] == 'X' or kind.endswith('X')
                uses_y |= kind[0] == 'Y' or kind.endswith('Y')
                txt.append('%s+1' % kind[0] if isa.IDX[kind][2] else kind)
            elif kind in ('REL7', 'REL12'):
                txt.append('PC')
            else:
                cls, _, legal, _ = isa.KINDS[kind]
                cand = range(32) if cls == 'reg' else [0x40, 0x45, 1, 2, 3, 16, 24, 26, 0]
                v = [x for x in cand if legal(x)][0]
                txt.append(('r%d' % v) if cls == 'reg' else str(v))
        lines.append((r['mn'], '%s %s' % (r['mn'], ', '.join(txt)), len(r['ops']), uses_x, uses_y))
    devs = sorted(rows)
    if tier == 'quick':
        keep = set(rnd.sample(devs, 12)) | {d for d in devs if any(f in rows[d]['opts'] for f in ('Tiny1x', 'Avr8l', 'NoXreg', 'NoElpmX', 'NoElpm'))}
        devs = [d for d in devs if d in keep]
    jobs = ['build\n %s\n' % l[1] for l in lines]
    idx = {}
    for d in devs:
        for i, l in enumerate(lines):
            idx[(d, i)] = len(jobs)
            jobs.append('build\n.device %s\n %s\n' % (d, l[1]))
    by_mn = {}
    for i, l in enumerate(lines):
        by_mn.setdefault(l[0], []).append(i)
    seq_jobs = []
    for d in devs:
        opts = rows[d]['opts']
        for mn, idxs in by_mn.items():
            ok_i = [i for i in idxs if device_feat.allowed_py(opts, mn, lines[i][2], lines[i][3], lines[i][4])]
            bad_i = [i for i in idxs if i not in ok_i]
            if ok_i and bad_i and not ('Avr8l' in opts and mn in ('lds', 'sts')):
                seq_jobs.append(('gate-sequence:%s:%s ; %s' % (d, lines[ok_i[0]][1], lines[bad_i[0]][1]), 'build\n.device %s\n %s\n %s\n' % (d, lines[ok_i[0]][1], lines[bad_i[0]][1])))
    extra = [('avr8l_label_after_sts', '.device ATtiny20\n sts 0x40, r16\ndone: rjmp done\n', '00a9ffcf'),
             ('avr8l_label_after_lds', '.device ATtiny20\n lds r16, 0x40\ndone: rjmp done\n', '00a1ffcf'),
             ('avr8l_branch_over_lds_sts', '.device ATtiny20\n breq done\n lds r17, 0x41\n sts 0x42, r17\ndone: nop\n', '11f011a112a90000')]
    # the one-word form itself: every address of the reduced core's window and the first ones outside, three registers
    for a in list(range(0x40, 0xc0)) + [0x3f, 0xc0, 0x100]:
        for reg in (16, 21, 31):
            for mn, txt, ors in (('lds', 'lds r%d, 0x%x' % (reg, a), [('reg', reg), ('expr', a)]), ('sts', 'sts 0x%x, r%d' % (a, reg), [('expr', a), ('reg', reg)])):
                w = isa.encode(mn, ors, 0, True)
                extra.append(('avr8l:%s' % txt, '.device ATtiny20\n %s\n' % txt, None if w is None else isa.le_bytes(w).hex()))
    base_extra = len(jobs)
    jobs += ['build\n' + e[1] for e in extra]
    base_seq = len(jobs)
    jobs += [j for _, j in seq_jobs]
    res = replay.run_jobs(jobs)
    out = []
    for d in devs:
        opts = rows[d]['opts']
        for i, (mn, text, n, ux, uy) in enumerate(lines):
            r0, r = res[i], res[idx[(d, i)]]
            allowed = device_feat.allowed_py(opts, mn, n, ux, uy)
            if not allowed:
                ok, want = r.get('status') == 'err', 'the build fails: %s lacks this instruction (flags %s)' % (d, ' '.join(opts))
            elif 'Avr8l' in opts and mn in ('lds', 'sts'):
                ok, want = r.get('status') in ('ok', 'err') and (r.get('status') != 'ok' or len(r['code']) == 4), 'one-word form (or an address outside its range)'
            else:
                ok, want = r.get('status') == r0.get('status') and r.get('code') == r0.get('code'), 'same machine code as without .device: %s' % r0.get('code')
            if not ok or (i % 29 == 0):
                out.append(WitnessResult('gate:%s:%s' % (d, text), jobs[idx[(d, i)]], ok, dict((k, r.get(k)) for k in ('status', 'code', 'err')), want, 'dev/'))
    for k, (name, src, want) in enumerate(extra):
        r = res[base_extra + k]
        ok = (r.get('status') == 'err') if want is None else (r.get('status') == 'ok' and r.get('code') == want)
        if not ok or not name.startswith('avr8l:') or k % 37 == 0:
            out.append(WitnessResult(name, 'build\n' + src, ok, dict((k2, r.get(k2)) for k2 in ('status', 'code', 'err')), want if want is not None else 'error', 'enc/' if name.startswith('avr8l:') else 'pass1/'))
    for k, (name, job) in enumerate(seq_jobs):
        r = res[base_seq + k]
        if r.get('status') != 'err' or k % 11 == 0:
            out.append(WitnessResult(name, job, r.get('status') == 'err', dict((k2, r.get(k2)) for k2 in ('status', 'code', 'err')),
                                     'the build fails: the second form is one the device lacks, whatever was admitted before it', 'dev/'))
    out.append(WitnessResult('gate:summary', '%d devices x %d instruction lines' % (len(devs), len(lines)), True, 'see the individual entries', 'all as the row flags say'))
    return out


PROPS['C13'] = dict(
    level_text='Proof: (Kani/CBMC, complete) Device::check_operation && check_operands, extracted verbatim, equals the flag oracle for all '
               '2^16 flag sets (a superset of the 54 table rows) x all 114 mnemonics x all operand forms; (Verus) pass 2 consults the gate '
               'before encoding and fails the build when it refuses (fold oracle step2); process() observes the device only through the '
               'Avr8l flag (its slice context exposes nothing else), so every admitted instruction encodes as with no device.',
    level_note='the flag sets of the table rows themselves are the reference of the property; NoEspm removes nothing this assembler knows',
    technique='Kani contract harness on the extracted gate against a generated flag oracle + Verus call-site obligation in pass 2',
    verus=['pass2', 'encv', 'pass1', 'link'],
    depends_on=['C02'],      # "the same machine code" for branches and label references presupposes the layout clauses: on a reduced core the
                             # one-word lds/sts must also be COUNTED as one word (ENCV #words / #length, PASS1 / PASS2 / LINK)
    kani=[dict(slice='dev', harnesses=lambda tier: [h for h in _dev_harnesses(tier) if h[0] == 'dev_gate']),
          # the one-word lds/sts of reduced cores: the lds / sts leaves of the encoder slice (both cores, all registers, all addresses)
          dict(slice='enc', harnesses=_enc_harnesses(lambda h: re.match(r'enc_one_(lds|sts)_\d+$', h) is not None), cex=_enc_cex, also_for=['C13'])],
    cex_replay=_enc_witness_from_cex,
    witnesses=witnesses_c13,
    functions=['Device::check_operation', 'Device::check_operands', 'Device::allow', 'Device::is_avr8l', 'pass_2_internal (gate call)', 'instruction::process'],
    explanation='spec/device_feat.py: flag -> removed instructions/forms, from the property text.',
    bounded=['every device of the table (quick: 12 sampled + every row with a rare flag) x one line per ISA row through the real pipeline: '
             'rejected exactly when the flags of the row (re-read from src/device.rs) remove it, otherwise the bytes of the build without '
             '.device; three programs with labels after the one-word lds/sts of ATtiny20'],
    not_decided=['whether the flag set of a table row is the right one for the real part: the property takes the table as its reference, '
                 'so an edited row is not a violation of it (seeded change C13_4 is of this kind and is deliberately not reported)'],
    assumptions=['R11: BTreeSet<DisabledOptions> modelled as a 16-bit mask keyed by flag name',
                 'independence of process() from all flags but Avr8l is by construction of the slice context (a new device access in process() '
                 'makes the slice fail to compile -> UNDECIDED, not a silent pass)'] + ENC_ASSUME[:1],
    trusted=['spec/device_feat.py'],
)


# ------------------------------------------------------------------------------------------------ C10
def witnesses_c10(tier, seed):
    cases = [
        ('label_case', 'Start: nop\n rjmp START\n rjmp start\n', dict(code='0000fecffdcf')),
        ('forward_label', ' rjmp fwd\n nop\nfwd: nop\n', dict(code='01c000000000')),
        ('equ_case_forward', ' ldi r16, Val\n.equ VAL = 7\n', dict(code='07e0')),
        ('set_sequential', '.set n = 1\n.db n, 0\n.set N = n + 1\n.db N, 0\n', dict(code='01000200')),
        ('def_alias_equiv', '.def Tmp = r17\n ldi tmp, 3\n ldi r17, 3\n', dict(code='13e013e0')),
        ('undef_then_use_fails', '.def tmp = r17\n.undef TMP\n ldi tmp, 3\n', 'error'),
        ('undefined_in_instruction', ' ldi r16, nosuch\n', 'error'),
        ('undefined_in_data', '.dw nosuch\n', 'error'),
        ('undefined_in_set', '.set a = nosuch\n', 'error'),
        ('duplicate_label', 'a: nop\na: nop\n', 'error'),
        ('duplicate_label_case', 'a: nop\nA: nop\n', 'error'),
        ('duplicate_label_same_address', 'a:\na: nop\n', 'error'),
        ('duplicate_label_same_address_after_set', 'a:\n.set x = 1\nA: nop\n', 'error'),
        ('duplicate_label_same_address_dseg', '.dseg\nv:\nv: .byte 1\n', 'error'),
        ('duplicate_label_other_segment', 'a: nop\n.dseg\na: .byte 1\n', 'error'),
        ('set_before_definition_fails', '.db later, 0\n.set later = 3\n', 'error'),
        ('undef_unknown_fails', '.undef nothing\n', 'error'),
        ('label_value_not_zero', ' nop\n nop\nl: .dw l\n', dict(code='000000000200')),
        ('equ_chain', '.equ a = b + 1\n.equ b = 2\n.db a, b\n', dict(code='0302')),
        ('set_reassigned_in_dseg', '.set n = 1\n.dseg\n.set n = 2\nv: .byte 1\n.cseg\n.db n, 0\n', dict(code='0200')),
        ('def_made_in_eseg', '.eseg\n.def t = r18\n.db 1\n.cseg\n ldi t, 1\n', dict(code='21e0')),
        ('undef_in_dseg_then_use_fails', '.def t = r18\n.dseg\n.undef t\n.cseg\n ldi t, 1\n', 'error'),
        ('label_in_two_memories_fails', '.dseg\nbuf: .byte 2\n.cseg\nbuf: nop\n', 'error'),
        ('undefined_right_of_false_and', '.db 0 && nosuch, 0\n', 'error'),
        ('undefined_right_of_true_or', '.db 1 || nosuch, 0\n', 'error'),
        ('undefined_left_of_or', '.db nosuch || 1, 0\n', 'error'),
        ('undefined_in_function_argument', '.db low(nosuch), 0\n', 'error'),
        ('undefined_times_zero', '.db 0 * nosuch, 0\n', 'error'),
        ('undefined_behind_equ', '.equ a = nosuch + 1\n.db a, 0\n', 'error'),
        # a .set variable holds the VALUE its expression had at the line of the .set (other .set variables, pc), not the expression
        ('set_is_evaluated_at_its_line', '.set base = 2\n.set off = base + 1\n.set base = 10\n.db off, 0\n', dict(code='0300')),
        ('set_pc_is_the_line_of_the_set', ' nop\n.set top = pc\n nop\n brne top\n rjmp top\n', dict(code='00000000f1f7fdcf')),
        # an .equ written over a .set variable means the same wherever it stands: alone or inside a larger expression, first use or later
        ('equ_over_set_same_value_alone_and_in_expression', '.set w = 2\n.equ t = w*2\n ldi r16, t\n.set w = 5\n ldi r17, t\n ldi r18, t+0\n', dict(code='04e01ae02ae0')),
        ('undef_mixed_case_then_redefine', '.def Tmp = r16\n.undef TMP\n.def tmp = r17\n mov tmp, r0\n', dict(code='102d')),
        ('set_sees_latest_preceding', '.set k = 5\n.db k, 0\n.set k = k * 2\n.db k, 0\n.set K = k + 1\n.db k, 0\n', dict(code='05000a000b00')),
    ]
    res = replay.run_jobs(['build\n' + c[1] for c in cases])
    out = []
    for (name, src, exp), r in zip(cases, res):
        ok = (r.get('status') == 'err') if exp == 'error' else (r.get('status') == 'ok' and all(r.get(k) == v for k, v in exp.items()))
        out.append(WitnessResult(name, 'build\n' + src, ok, dict((k, r.get(k)) for k in ('status', 'code', 'err')), exp, 'symbols/'))
    return out


PROPS['C10'] = dict(
    level_text='Proof (Verus, unbounded): context.rs verbatim: every lookup of labels/.equ/.set/.def/special depends on the name only through '
               'lower(name) and returns what the setter stored; get_expr order and None iff unbound everywhere; exist; set_def. '
               'Expr::run on an identifier follows get_expr and is Err(MissingIdentifier) when unbound (unit EXPR); pass 1 binds each label '
               'to its address exactly once and fails on any rebinding (unit PASS1, derived lemmas labels_distinct/label_value); pass 2 '
               'applies .set/.def/.undef in source order under lower-cased names, failing on unknown .undef, undefined .set operand, '
               'non-register .def (fold oracle of unit PASS2); get_r8 resolves an alias to exactly the bound register (ENCV + Kani ENC '
               'alias shapes).',
    level_note='lower() is uninterpreted (idempotent); that the grammar lower-cases label names and that .equ is stored at parse time '
               '(Directive::Equ) are outside the units: witnesses only',
    technique='Verus contracts on the extracted table getters/setters (R9 table view) + the fold/recursive oracles of EXPR, PASS1, PASS2',
    verus=['ctxu', 'expr', 'pass1', 'pass2', 'encv', 'dir', 'mexp'],   # mexp #build_str / #build_file: the passes run with the SAME symbol context the parse filled
    witnesses=witnesses_c10,
    functions=['context::{CommonContext getters/setters, Context::get_expr, Context::exist}', 'Expr::run (Ident arm)', 'pass_1_internal (Label arm)',
               'pass_2_internal (Set/Def/Undef arms)', 'InstructionOps::get_r8'],
    explanation='lookup()/exists_name() in contracts/ctxu.vspec are the binding rules of the property; the same definitions are the stubs used by PASS2.',
    assumptions=['R9: Rc<RefCell<HashMap<String,V>>> is a table with a ghost map view; tab_get/tab_insert state HashMap::get+clone / insert',
                 'str::to_lowercase is the uninterpreted idempotent lower(); HashMap behaves as a map',
                 'label() of the grammar lower-cases label names (set_label stores the name as given); Directive::Equ stores at parse time',
                 'trait Context has a single implementor: default methods verified as inherent methods (R3)'],
    bounded=['16 fixed symbol programs through build_str (letter case, forward references, redefinition, deletion, duplication)'],
)


# ------------------------------------------------------------------------------------------------ C08
def witnesses_c08(tier, seed):
    import cond_sem
    ws = cond_sem.witnesses(150 if tier == 'quick' else 1500, seed or 4)
    jobs = []
    for src, img, kept in ws:
        jobs.append('build\n' + src)
        jobs.append('build\n' + kept)
    res = replay.run_jobs(jobs)
    out = []
    for i, (src, img, kept) in enumerate(ws):
        r, rk = res[2 * i], res[2 * i + 1]
        ok = r.get('status') == 'ok' and r.get('code') == img.hex() and rk.get('status') == 'ok' and rk.get('code') == r.get('code')
        out.append(WitnessResult('cond:%d' % i, 'build\n' + src, ok, dict(full=dict((k, r.get(k)) for k in ('status', 'code', 'err')), deleted=dict((k, rk.get(k)) for k in ('status', 'code', 'err'))),
                                 dict(code=img.hex(), note='same image as the program with the unselected lines deleted'), 'cond/'))
    # conditions whose truth is not 0/1 and names in unusual letter case: which branch is the one "whose condition holds"
    sel = lambda cond, pre='': pre + '.if %s\n ldi r16, 1\n.else\n ldi r16, 2\n.endif\n' % cond
    fixed = [('nonzero_is_true', sel('5'), '01e0'), ('negative_is_true', sel('0 - 1'), '01e0'), ('complement_is_true', sel('~0'), '01e0'),
             ('and_of_disjoint_bits', sel('2 && 1'), '01e0'), ('and_of_disjoint_bits_2', sel('8 && 4'), '01e0'), ('or_of_zero_and_bit', sel('0 || 4'), '01e0'),
             ('and_with_zero', sel('4 && 0'), '02e0'), ('not_of_nonzero', sel('!7'), '02e0'), ('difference_zero', sel('3 - 3'), '02e0'),
             ('equ_in_condition_any_case', sel('Mode == 3', '.equ MODE = 3\n'), '01e0'),
             ('define_flag_is_zero', '.define FAST\n.if FAST\n ldi r16, 1\n.elif !FAST\n ldi r16, 2\n.endif\n', '02e0'),
             ('define_beats_equ_of_other_case', '.equ mode = 3\n.define Mode\n.if Mode == 3\n ldi r16, 1\n.else\n ldi r16, 2\n.endif\n', '02e0'),
             ('ifdef_exact_case', '.define Fast\n.ifdef Fast\n ldi r16, 1\n.else\n ldi r16, 2\n.endif\n', '01e0'),
             ('ifndef_undefined', '.ifndef nothing\n ldi r16, 1\n.else\n ldi r16, 2\n.endif\n', '01e0'),
             ('elif_negative', '.if 0\n ldi r16, 1\n.elif 1 - 3\n ldi r16, 2\n.else\n ldi r16, 3\n.endif\n', '02e0'),
             # the condition arrives through a macro argument (pasted as text and parsed again)
             ('ifdef_on_macro_argument', '.define USE_FAST\n.macro pick\n.ifdef @0\n ldi r16, 1\n.else\n ldi r16, 2\n.endif\n.endm\n pick USE_FAST\n', '01e0'),
             ('ifndef_on_macro_argument', '.define UseFast\n.macro pick\n.ifndef @0\n ldi r16, 1\n.else\n ldi r16, 2\n.endif\n.endm\n pick UseFast\n', '02e0'),
             ('ifdef_on_macro_argument_other_case_is_undefined', '.define use_fast\n.macro pick\n.ifdef @0\n ldi r16, 1\n.else\n ldi r16, 2\n.endif\n.endm\n pick USE_FAST\n', '02e0'),
             ('if_on_macro_argument_expression', '.macro pick\n.if @0 > 6\n ldi r16, 1\n.else\n ldi r16, 2\n.endif\n.endm\n pick 3+4\n pick 2*3\n', '01e002e0'),
             ('ifdef_sees_only_defines', '.equ NAME = 4\n.ifdef NAME\n ldi r16, 1\n.else\n ldi r16, 2\n.endif\n.ifndef NAME\n ldi r17, 1\n.endif\n', '02e011e0'),
             # every spelling of a conditional directive is seen while skipping too: the preprocessor spelling of the part files, a label in
             # front of the directive, indentation
             ('hash_spelled_chain', '#ifdef FEATURE\n ldi r16, 1\n#else\n ldi r16, 2\n#endif\n ldi r17, 3\n', '02e013e0'),
             ('hash_spelled_nested_in_unselected', '#if 0\n#ifdef X\n ldi r16, 1\n#else\n ldi r16, 4\n#endif\n#elif 1\n ldi r16, 2\n#else\n ldi r16, 5\n#endif\n ldi r17, 3\n', '02e013e0'),
             ('labelled_nested_if_in_unselected', '.if 0\n ldi r16, 1\ninner: .if 1\n ldi r16, 4\n .endif\n ldi r16, 5\n.else\n ldi r16, 2\n.endif\n ldi r17, 3\n', '02e013e0'),
             ('labelled_endif_in_unselected', '.if 0\n ldi r16, 1\n.if 1\n ldi r16, 4\ndone: .endif\n ldi r16, 5\n.else\n ldi r16, 2\n.endif\n ldi r17, 3\n', '02e013e0'),
             ('indented_directives_in_unselected', '.if 0\n\t .if 1\n ldi r16, 4\n\t .endif\n ldi r16, 5\n .else\n ldi r16, 2\n.endif\n ldi r17, 3\n', '02e013e0'),
             # a comparison handed through a macro argument, at its boundary (the operator itself is rendered and parsed again)
             ('comparisons_at_boundary_through_macro', '.macro pick\n.if @0\n ldi r16, 1\n.else\n ldi r16, 2\n.endif\n.endm\n.equ N = 4\n pick N >= 4\n pick N <= 4\n pick N > 4\n pick N < 4\n pick N == 4\n pick N != 4\n', '01e001e002e002e001e002e0')]
    res2 = replay.run_jobs(['build\n' + f[1] for f in fixed])
    for (name, src, want), r in zip(fixed, res2):
        out.append(WitnessResult('select:' + name, 'build\n' + src, r.get('status') == 'ok' and r.get('code') == want, dict((k, r.get(k)) for k in ('status', 'code', 'err')), want, 'cond/'))
    return out


PROPS['C08'] = dict(
    level_text='Proof (Verus, unbounded): parser::skip verbatim equals a nesting oracle over classified lines (first depth-0 .elif/.else/.endif '
               'for a branch that is not taken, the matching .endif for the rest of a block, unparsable lines ignored, cursor advanced exactly '
               'that far, no effect on any state); parser::parse_iter verbatim equals a fold in which only the lines skip() selects are '
               'dispatched and an .elif met while assembling skips every remaining branch; the conditional arms of Directive::parse '
               '(.if/.elif by the value of the condition, .ifdef/.ifndef by the define table, .else -> skip all, .endif) change no state.',
    level_note='what the PEG grammar classifies a line as (parsed()) is uninterpreted; the relational statement "identical to the program with the '
               'unselected lines deleted" is a meta-theorem over the fold and is only exercised by generated witnesses',
    technique='Verus loop invariants on the extracted skip/parse_iter against recursive nesting and driver oracles + contract on Directive::parse arms',
    verus=['cond', 'dir', 'expr', 'ctxu'],
    depends_on=['C05', 'C10', 'C09'],   # 'the first branch whose condition holds': the value of the condition (C05) and the lookup of .define / .equ names in it (C10) are presupposed; a condition written on a macro parameter gets its text through the expansion (C09)
    witnesses=witnesses_c08,
    functions=['parser::skip', 'parser::parse_iter', 'directive::Directive::parse (If/ElIf/IfDef/IfNDef/Else/Endif/Define arms)'],
    explanation='branch_end/block_end/skip_ret/skip_pos and drive/line_step in contracts/cond.vspec are the oracle; dir.vspec carries the arms.',
    assumptions=['R8: the line iterator is an abstract cursor over a ghost sequence of (number, text)', 'R9: ParseContext state behind Rc/RefCell as one ghost record',
                 'document::line (PEG grammar) is uninterpreted: a line carries the directive the grammar says it carries',
                 'Directive::parse appears in COND as an uninterpreted state transformer; its conditional arms are proved in DIR'],
    trusted=['spec/cond_sem.py (witness generator and reference interpreter)'],
    bounded=['150 (quick) / 1500 (thorough) generated nested conditional programs, each built in full and with the unselected lines deleted'],
)


# ------------------------------------------------------------------------------------------------ C15 / C16
def witnesses_c15(tier, seed):
    base = ['nop', 'ldi r16, 1', 'lbl: nop', '.db 1, 2', '.set v = 1', '.if 1', 'nop', '.endif', '.dw lbl', 'rjmp lbl']
    faults = [('syntax', 'this is ((( not asm'), ('unknown_mnemonic_or_macro', 'frobnicate r1'), ('operand_kind', 'ldi 5, r16'),
              ('operand_range', 'ldi r16, 300'), ('low_register', 'ldi r3, 1'), ('undefined_in_instruction', 'ldi r16, nosuch'),
              ('undefined_in_data', '.dw nosuch'), ('undefined_in_set', '.set w = nosuch'), ('undefined_in_if', '.if nosuch\n.endif'),
              ('duplicate_label', 'lbl: nop'), ('branch_out_of_range', 'breq 5000'), ('string_in_dw', '.dw "x"'), ('error_directive', '.error "stop"'),
              ('byte_two_operands', '.byte 1, 2'), ('unknown_device', '.device ATnope')]
    jobs, meta = [], []
    for name, text in faults:
        for pos in ([0, 3, len(base)] if tier == 'quick' else range(len(base) + 1)):
            if name == 'duplicate_label' and pos <= 2:
                continue
            lines = base[:pos] + text.split('\n') + base[pos:]
            # keep the .if/.endif pair of the base balanced around the insertion
            jobs.append('build\n' + '\n'.join(lines) + '\n')
            meta.append((name, pos + 1))
    # the same kinds of fault on a line that stands in a data or EEPROM segment, and inside a macro body / conditional
    seg_faults = [('undefined_in_set_in_dseg', 'nop\n.dseg\nbuf: .byte 2\n.set w = nosuch\n.cseg\nnop\n', 4),
                  ('undef_unknown_in_dseg', 'nop\n.dseg\n.undef nothing\n.cseg\n', 3),
                  ('def_of_non_register_in_dseg', '.dseg\n.byte 1\n.def t = nosuch\n', 3),
                  ('undefined_in_set_in_eseg', '.eseg\n.db 1\n.set w = nosuch + 1\n', 3),
                  ('instruction_in_dseg', 'nop\n.dseg\n nop\n', 3),
                  ('db_in_dseg', '.dseg\n.byte 1\n.db 1\n', 3),
                  ('undefined_in_eeprom_data', '.eseg\n.db 1\n.dw nosuch\n', 3),
                  ('duplicate_label_in_dseg', 'a: nop\n.dseg\nb: .byte 1\na: .byte 1\n', 4),
                  ('range_in_taken_else', 'nop\n.if 0\n nop\n.else\n ldi r16, 999\n.endif\n', 5),
                  ('duplicate_label_at_same_address', 'nop\nagain:\nagain: nop\n', 3),
                  ('duplicate_label_at_same_address_other_case', 'nop\nagain:\n.set q = 2\nAGAIN: nop\n', 4),
                  ('duplicate_label_at_same_address_in_dseg', '.dseg\nv: .byte 0\nv: .byte 1\n', 3)]
    for name, text, line_no in seg_faults:
        jobs.append('build\n' + text)
        meta.append((name, line_no))
    msgs_only = '.message "alpha"\n.if 1\n.warning "beta"\n.endif\n.equ x = 1\n'
    jobs.append('build\n' + msgs_only)
    msgs = 'nop\n.message "one"\n.if 0\n.message "hidden"\n.error "hidden too"\n.else\n.warning "two"\n.endif\nnop\n.message "three"\n'
    jobs.append('build\n' + msgs)
    msg_cases = [
        ('messages_from_macro_body', 'build\n.macro note\n.message "in macro"\n nop\n.warning "macro warns"\n.endm\n.message "before"\n note\n.message "between"\n note\n.message "after"\n',
         ['info: before', 'info: in macro', 'warning: macro warns', 'info: between', 'info: in macro', 'warning: macro warns', 'info: after']),
        ('messages_from_nested_macro', 'build\n.macro inner\n.message "inner"\n.endm\n.macro outer\n.message "outer"\n inner\n.endm\n outer\n.message "end"\n',
         ['info: outer', 'info: inner', 'info: end']),
        ('messages_from_included_file', 'tree main.asm \n@@ main.asm\n.message "main 1"\n.include "a.inc"\n.message "main 2"\n@@ a.inc\n.warning "inc"\n nop\n',
         ['info: main 1', 'warning: inc', 'info: main 2']),
        # a message of a macro body appears once per expansion, also when the same macro is called twice in a row (equal text, equal line)
        ('same_macro_message_twice_in_a_row', 'build\n.macro note\n.message "in macro"\n.endm\n note\n note\n note\n.message "after"\n',
         ['info: in macro', 'info: in macro', 'info: in macro', 'info: after']),
        ('error_in_macro_body_fails', 'build\n.macro bad\n.error "from macro"\n.endm\n nop\n bad\n', None),
    ]
    base_msg = len(jobs)
    jobs += [c[1] for c in msg_cases]
    res_all = replay.run_jobs(jobs)
    res = res_all
    out = []
    for k, (name, job, want) in enumerate(msg_cases):
        r = res_all[base_msg + k]
        if want is None:
            ok = r.get('status') == 'err'
        else:
            # messages produced while a macro is expanded (pass 0) are appended after the messages of the text itself (parse time): where
            # they belong relative to those is not fixed by the property; what is checked: every message is there as often as its line is
            # assembled, and each of the two groups is in its own order
            got = [re.sub(r' in line: \d+$', '', m) for m in r.get('messages', [])] if r.get('status') == 'ok' else None
            inner = lambda m: any(w in m for w in ('in macro', 'macro warns', 'inner', 'outer'))
            ok = got is not None and [m for m in got if inner(m)] == [m for m in want if inner(m)] and [m for m in got if not inner(m)] == [m for m in want if not inner(m)]
        out.append(WitnessResult(name, job, ok, dict((k2, r.get(k2)) for k2 in ('status', 'messages', 'err')), want if want is not None else 'the build fails', 'errors/'))
    jobs = jobs[:base_msg]
    res = res_all[:base_msg]
    for (name, line_no), job, r in zip(meta, jobs, res):
        ok = r.get('status') == 'err' and re.search(r'line: %d\b' % line_no, r.get('err', '')) is not None
        out.append(WitnessResult('fault:%s@line%d' % (name, line_no), job, ok, dict((k, r.get(k)) for k in ('status', 'err')),
                                 'Err whose text names line %d' % line_no, 'errors/'))
    r0 = res[-2]
    want0 = ['info: alpha in line: 1', 'warning: beta in line: 3']
    out.append(WitnessResult('messages_without_any_item', jobs[-2], r0.get('status') == 'ok' and r0.get('messages') == want0, dict((k, r0.get(k)) for k in ('status', 'messages', 'err')), dict(messages=want0), 'errors/'))
    r = res[-1]
    want = ['info: one in line: 2', 'warning: two in line: 7', 'info: three in line: 10']
    ok = r.get('status') == 'ok' and r.get('messages') == want and r.get('code') == '00000000'
    out.append(WitnessResult('messages_in_order', jobs[-1], ok, dict((k, r.get(k)) for k in ('status', 'messages', 'code', 'err')), dict(messages=want, code='00000000'), 'errors/'))
    return out


PROPS['C15'] = dict(
    level_text='Proof (Verus, unbounded), through rule R1 which keeps whether an error carries the current CodePoint: every error raised for an '
               'item by pass 1 and pass 2 carries that item\'s line (#err_line; errors coming up from process/GetData/Expr::run carry none '
               '(#noloc) and are wrapped with the line by the caller); every error Directive::parse raises itself carries its point; a line '
               'the grammar rejects fails with its own number (parse_iter fold); .message/.warning append exactly one entry and touch '
               'nothing else, .error additionally fails, none of them is dispatched from an unselected branch (C08 fold).',
    level_note='the rendering "line: N" (fmt::Display) and the message text are dropped by extraction: bound by single-fault witnesses; errors raised '
               'inside pass 0 are under contract as an identity (unit PASS0 #error_is: nesting too deep and an undefined macro are errors at the line of '
               'the call, an error inside a body is passed on as it is -- unit COND gives it the stored number of the body line); a file that an '
               '.include cannot find carries no line (the property does not list that fault)',
    technique='Verus postconditions on error locations over the extracted passes / Directive::parse / parse_iter (rule R1 keeps the location)',
    verus=['pass1', 'pass2', 'dir', 'cond', 'data', 'encv', 'expr', 'pass0', 'ctxu'],
    depends_on=['C10', 'C04', 'C08'],   # 'an undefined symbol, a duplicate label' (C10) and 'an operand of the wrong kind or out of range' (C04) fail the build: presupposed; `.error` / `.message` take effect exactly 'wherever they are assembled', i.e. in the selected branch (C08)
    whole_units=['expr'],     # an expression that must fail but evaluates hides the fault: every clause of EXPR counts here
    witnesses=witnesses_c15,
    functions=['pass_1_internal', 'pass_2_internal', 'build_pass_2', 'Directive::parse', 'parse_iter', 'process / GetData (no location)'],
    explanation='Error{loc} in contracts/common.vinc is the abstract view of failure::Error; R1 maps each bail! to verr_at(point) or verr_none().',
    assumptions=['R1 decides "carries the location" syntactically: an argument of bail! named point/line or a CodePoint literal',
                 'Display for CodePoint prints "line: N": witnesses only'],
    bounded=['single-fault programs: 15 fault kinds x 3 (quick) / 11 (thorough) line positions; one message-order program'],
)


def witnesses_c16(tier, seed):
    import isa
    rnd = random.Random(seed or 13)
    ops = ['', 'r0', 'r31', 'r32', 'R16', 'X', 'X+', '-Y', 'Z+63', 'Z+64', 'Y+', '0', '-1', '255', '256', '65536', '4194304',
           '9223372036854775807', '99999999999999999999', '0x', '$FFFFFFFFFFFFFFFFF', '1<<64', '1/0', '-(-9223372036854775807-1)', 'nosuch',
           '"str"', "'c'", '(', ')', ',', '@0', 'low(', 'exp2(99)', 'r1 r2', ';', '.', '#', 'pc', 'PC-1', "''", "'", "'ab'", '""', '"', "'\\'"]
    heads = list(isa.MNEMONICS) + ['.' + d for d in ['byte', 'cseg', 'csegsize', 'db', 'def', 'device', 'dseg', 'dw', 'endm', 'endmacro', 'equ', 'eseg',
                                                      'exit', 'include', 'includepath', 'list', 'listmac', 'macro', 'nolist', 'org', 'set', 'define',
                                                      'else', 'elif', 'endif', 'error', 'if', 'ifdef', 'ifndef', 'message', 'dd', 'dq', 'undef',
                                                      'warning', 'overlap', 'nooverlap', 'pragma', 'bogus']] + ['lbl:', 'macrocall', '#define']
    jobs = []
    for h in heads:
        jobs.append('build\n%s\n' % h)
        for a in ops[1:]:
            jobs.append('build\n%s %s\n' % (h, a))
        pairs = [(a, b) for a in ops[1:] for b in ops[1:]]
        if tier == 'quick':
            pairs = rnd.sample(pairs, 40)
        for a, b in pairs:
            jobs.append('build\n%s %s, %s\n' % (h, a, b))
        for _ in range(5 if tier == 'quick' else 60):
            jobs.append('build\n%s %s, %s, %s\n' % (h, rnd.choice(ops), rnd.choice(ops), rnd.choice(ops)))
    # every mnemonic / directive / unknown name where it does not belong: inside a data and an EEPROM segment, inside a skipped branch, inside
    # the body of a macro that is never called and of one that is (error paths format their messages there)
    for h in heads:
        for a in ('', 'r16', 'r16, 1'):
            for pre in ('.dseg\n', '.eseg\n', '.if 0\n', '.macro never\n', '.macro m\n'):
                post = {'.if 0\n': '.endif\n', '.macro never\n': '.endm\n', '.macro m\n': '.endm\n m\n'}.get(pre, '')
                jobs.append('build\n%s %s %s\n%s' % (pre, h, a, post))
    # every kind of name bound twice, in every order (the clash is an error path of its own in each pass)
    binders = {'label': 'x: nop\n', 'equ': '.equ x = 1\n', 'set': '.set x = 2\n', 'def': '.def x = r16\n', 'define': '.define x\n', 'macro': '.macro x\n nop\n.endm\n',
               'pc': '.set pc = 3\n', 'label_after': ' nop\nX: nop\n', 'dseg_label': '.dseg\nx: .byte 1\n.cseg\n'}
    for a in binders.values():
        for b in binders.values():
            jobs.append('build\n' + a + b + ' ldi r16, low(x)\n')
            jobs.append('build\n' + a + b + '.undef x\n x\n')
    multi = ['.equ a = b\n.equ b = a\n ldi r16, a\n', '.macro m\n m\n.endm\n m\n', '.macro a\n b\n.endm\n.macro b\n a\n.endm\n a\n', '.if 1\n' * 200,
             '.endif\n.else\n.elif 1\n.endm\n', '.macro x\n', '.dseg\n.byte 999999999999\n', '.org 0x7fffffff\n nop\n', '.eseg\n.org 4294967295\n.db 1\n',
             '.device ATtiny10\n.dseg\n.byte 33\n', '(' * 300 + '\n', '.db ' + ','.join(['1'] * 5000) + '\n', '.include "/nonexistent/file.inc"\n',
             '.def a = r1\n.def b = a\n ldi b, 1\n', '.set s = s + 1\n', 'l: .dw l, l+1, l-1, l*l, l<<l\n']
    jobs += ['build\n' + m for m in multi]
    # hostile include trees and working directories
    multi_inc = ['tree main.asm \n@@ main.asm\nnop\n.include "main.asm"\n', 'tree a.asm \n@@ a.asm\n.include "b.asm"\n@@ b.asm\n.include "a.asm"\n',
                 'tree m.asm \n@@ m.asm\n.macro m\n.include "m.asm"\n.endm\n m\n', 'buildcwd /\n.includepath "x"\n.include "nosuch"\n',
                 'buildcwd /\n.includepath ""\n', 'tree d \n@@ d/x.asm\nnop\n', 'tree m.asm .. / @ROOT@\n@@ m.asm\n.includepath "/"\n.includepath ".."\n.include ""\n']
    jobs += multi_inc
    multi = multi + multi_inc
    res = replay.run_jobs(jobs, timeout_per_job=10)
    out = []
    bad = 0
    for job, r in zip(jobs, res):
        ok = r.get('status') in ('ok', 'err')
        if True:
            out.append(WitnessResult('hostile:' + job[6:60].replace('\n', ' ; '), job, ok, dict((k, r.get(k)) for k in ('status', 'err')), 'a result or an error value', 'hostile/'))
    # one summary witness so the count is visible
    out.append(WitnessResult('hostile:summary', '%d single-line and %d multi-line programs' % (len(jobs) - len(multi), len(multi)), True, 'all returned a value', 'no panic, crash or hang'))
    return out


PROPS['C16'] = dict(
    level_text='Proof, for every function under contract (19 units; see DESIGN.md section 11), with no precondition on user-controlled values: Verus '
               'discharges every index, overflow, shift-amount, division, unwrap obligation and a decreases clause for every loop and recursion '
               '(Expr evaluation with its nesting budget, skip, parse_iter, pass 1/2 loops, the HEX writer); Kani checks the same panics in '
               'each of its harnesses; pass 1 stops at the device capacity so that pass 2 allocates at most the fragment lengths it proves. '
               'Macro expansion (pass0_internal) and file inclusion (parse_file_internal, the .include/.includepath arms) recurse under a '
               'proved nesting budget. macro_expand and the result conversions (as_parse_result, as_pass0_result) are under contract over an explicit model of the Rc<RefCell> state (unit MEXP: its one unwrap and its index arithmetic are discharged from the precondition that pass 0 keeps a segment). The claim is exactly: from the parsed Document onward, minus main.rs.',
    level_note='NOT under contract (bounded hostile-input witnesses only): action code inside the PEG grammar, Display / String::replace inside macro_expand, utility.rs, main.rs; '
               'stack depth of the generated recursive-descent parser on deeply nested parentheses; std::path / std::fs calls are assumed not to panic',
    technique='panic-freedom and termination obligations generated by Verus/Kani for every extracted function (no preconditions on inputs)',
    verus=['encv', 'expr', 'data', 'pass1', 'pass2', 'build', 'hex', 'ctxu', 'dir', 'cond', 'pass0', 'inc'],
    kani=[dict(slice='conv', harnesses=lambda tier: _conv_harnesses(tier)), dict(slice='dev', harnesses=lambda tier: _dev_harnesses(tier)),
          dict(slice='exprstep', harnesses=lambda tier: _step_harnesses(tier)), dict(slice='enc', harnesses=_enc_harnesses(), cex=_enc_cex)],
    cex_replay=_enc_witness_from_cex,
    only_untagged=True,
    witnesses=witnesses_c16,
    functions=['all functions of DESIGN.md section 11'],
    explanation='Only untagged obligations (panic, call-site preconditions, decreases, invariants) and clauses tagged C16 count for this property.',
    assumptions=['preconditions that remain are structural facts proved by the producer (seg_wf2 from pass 1, wf of the parse context, device rows small)',
                 'R1/R2 drop the arguments of error messages: that FORMATTING a message cannot panic (fmt::Display of operands, strum Display of '
                 'Operation with its disabled variants) is assumed; exercised only by the hostile-input witnesses, which reach every error path '
                 'with every mnemonic',
                 'machine memory bound mem_bound; slice length <= isize::MAX; usize = 64 bit'],
    bounded=['hostile-input witnesses: every mnemonic and directive with 0, 1 (38 texts), 2 (40 sampled / all 1444 pairs) and 3 sampled operands from a '
             'dictionary of valid, boundary and hostile texts, plus 23 multi-line programs and include trees (cyclic .equ, self-calling macros, '
             'unbalanced blocks, huge reservations, deep parentheses, a file including itself directly / through another file / through a macro, '
             '.includepath with / as working directory, a directory as main file), run natively with crash/timeout detection'],
    not_decided=['grammar action code, Display / String::replace inside macro_expand, CLI: witnesses only'],
)


# ------------------------------------------------------------------------------------------------ C09
def witnesses_c09(tier, seed):
    import macro_sem
    ws = macro_sem.witnesses(150 if tier == 'quick' else 1500, seed or 2) + macro_sem.grouping_witnesses(120 if tier == 'quick' else 10000, seed or 2)
    # body text is taken verbatim: `;` inside a character or string literal is no comment; a parameter that is mentioned only in a comment, in
    # a string or in a branch this call does not select is not 'used' by the call
    ws += [(".macro m\n cpi @0, ';'\n.endm\n m r16\n", " cpi r16, ';'\n"),
           ('.macro m\n.db "cmd;", @0\n.endm\n m 7\n', '.db "cmd;", 7\n'),
           (".macro m\n ldi r16, ';' ; comment ; more\n.endm\n m\n", " ldi r16, ';'\n"),
           ('.macro m\n.if @0 > 200\n ldi r17, @1\n.endif\n ldi r16, @0\n.endm\n m 5\n', ' ldi r16, 5\n'),
           ('.macro m\n ldi r16, @0 ; uses @1 later\n.endm\n m 5\n', ' ldi r16, 5\n'),
           ('.macro m\n.db "a@b", @0\n.endm\n m 1\n', '.db "a@b", 1\n'),
           ('.macro m\n.if @0 == 1\n ldi r16, @1\n.elif @0 == 2\n ldi r16, @2\n.else\n nop\n.endif\n.endm\n m 1, 7\n m 3\n', ' ldi r16, 7\n nop\n')]
    jobs = []
    for a, b in ws:
        jobs += ['build\n' + a, 'build\n' + b]
    fixed = [('undefined_macro', 'build\n nosuchmacro r1, 2\n', 'err'), ('missing_argument', 'build\n.macro m\n ldi @0, @1\n.endm\n m r16\n', 'err'),
             ('self_call_bounded', 'build\n.macro m\n m\n.endm\n m\n', 'err'), ('capital_name_callable', 'build\n.macro BIG\n nop\n.endm\n big\n Big\n', 'ok'),
             # an identifier argument keeps its spelling (names of .define flags are case-sensitive)
             ('define_flag_as_argument', 'build\n.define FAST\n.macro pick\n.ifdef @0\n nop\n.else\n ret\n.endif\n.endm\n pick FAST\n', '0000'),
             ('mixed_case_flag_as_argument', 'build\n.define UseUart\n.macro pick\n.ifndef @0\n ret\n.else\n nop\n.endif\n.endm\n pick UseUart\n', '0000'),
             ('undefined_flag_as_argument', 'build\n.define fast\n.macro pick\n.ifdef @0\n nop\n.else\n ret\n.endif\n.endm\n pick FAST\n', '0895'),
             # a nested call after a segment switch inside the body is expanded too
             ('nested_call_after_segment_switch', 'build\n.macro inner\n ldi r16, 1\n.endm\n.macro outer\n nop\n.dseg\n.byte 1\n.cseg\n inner\n.endm\n outer\n ret\n', '000001e00895'),
             ('unknown_name_after_segment_switch_fails', 'build\n.macro outer\n nop\n.dseg\n.byte 1\n.cseg\n bogus r1\n.endm\n outer\n', 'err')]
    jobs += [f[1] for f in fixed]
    res = replay.run_jobs(jobs)
    out = []
    for i, (a, b) in enumerate(ws):
        r, rf = res[2 * i], res[2 * i + 1]
        if r.get('status') == 'ok' and rf.get('status') == 'ok':
            ok = r['code'] == rf['code'] and r['eeprom'] == rf['eeprom'] and r['ram_filling'] == rf['ram_filling']
        else:
            ok = r.get('status') == 'err' and rf.get('status') == 'err'      # both fail the build (e.g. a zero divisor in the argument)
        out.append(WitnessResult('macro:%d' % i, 'build\n' + a, ok, dict(with_macros=dict((k, r.get(k)) for k in ('status', 'code', 'err')), hand_expanded=dict((k, rf.get(k)) for k in ('status', 'code', 'err'))),
                                 'same images as the hand-expanded program', 'macro/'))
    for (name, job, want), r in zip(fixed, res[2 * len(ws):]):
        ok = r.get('status') == want if want in ('ok', 'err') else (r.get('status') == 'ok' and r.get('code') == want)
        out.append(WitnessResult(name, job, ok, dict((k, r.get(k)) for k in ('status', 'code', 'err')), want, 'macro/'))
    return out


PROPS['C09'] = dict(
    level_text='PARTIAL. Proof (Verus, unbounded) of the parts a contract can reach: (a) pass0_internal verbatim equals a splice fold: a macro call is '
               'replaced in place and in order by all items of every segment its expansion produced (further code segments under their own '
               'type/address, others as they are), nested calls likewise, nesting bounded, a failing/undefined expansion fails the build; '
               '(b) .macro stores the lower-cased name and skip() files the body under exactly that name; (c) the body is collected verbatim '
               'up to .endm/.endmacro and the line after it is the next one assembled; (d) macro_expand verbatim (unit MEXP, over an explicit '
               'model of the Rc<RefCell> state): the body stored under exactly the called name is taken, every line in order under its own '
               'line number, with @0..@(n-1) replaced one after the other by the text of the like-numbered operand of the call (a call without '
               'operands takes the body as it is); it is parsed by the ordinary line loop in the symbol / macro / message context of the '
               'build into a list of its own that starts as one empty code segment at the current address; the call yields every segment '
               'the body filled, in order, plus the last one; the output list of pass 0 is untouched; an undefined macro is an error at the '
               'line of the call. as_parse_result / as_pass0_result hand on exactly the non-empty segments in order, the macro table and '
               'the messages. What "the text of an operand" is (Display) and what replacing / re-parsing text does are named assumptions.',
    level_note='"the call behaves as the body with the arguments substituted" therefore still rests, for the rendering of an argument and the re-parse of '
               'the substituted text (the round trip the property names), on generated witness programs compared with their hand expansion; claimed at '
               'proof level for (a)-(d) only',
    technique='Verus fold oracle for pass0_internal (mutual recursion with a nesting budget) + skip/Directive::parse clauses + Verus contract on the '
              'extracted macro_expand / as_pass0_result / as_parse_result against a substitution oracle (Display, str::replace, parse_iter assumed)',
    verus=['pass0', 'cond', 'dir'],   # pass0 splices in the whole of unit MEXP (contracts/mexp.vspec): macro_expand and the contexts are verified in the same file
    witnesses=witnesses_c09,
    functions=['builder::pass0::{build_pass_0, pass0_internal, macro_expand}', 'Pass0Context::{add_segment, push_to_last, as_pass0_result}',
               'ParseContext::{add_segment, as_parse_result}', 'parser::skip (EndMacro mode)', 'Directive::parse (Macro arm)'],
    explanation='p0_items/p0_segs in contracts/pass0.vspec; subst_line/subst_lines/keep_segs/nonempty in contracts/mexp.vspec; #macro_body in cond.vspec; '
                '#macro in dir.vspec.',
    assumptions=['unit PASS0 contains the whole of builder/pass0.rs: pass0_internal calls the macro_expand that is verified in the same file (no stub '
                 'between them); the oracle functions mexp/menv of the splice fold are DEFINED from macro_expand\'s postconditions (lookup, substitution, '
                 'parse_iter, kept segments)',
                 'MEXP: fmt::Display of an operand (op_str), format!("@{}", n) (marker), str::replace (replace_all), HashMap::get (tab_get) and '
                 'parse_iter (pi_res / pi_segs / pi_env: unit COND proves it equal to the line-loop fold) are uninterpreted',
                 'MEXP: the state behind Rc<RefCell<..>> handles is an explicit parameter `vfw_w` added to the signatures (A-alias): a handle is '
                 'an identity, Rc::clone shares it, Rc::new(RefCell::new(..)) makes a fresh one; parse_iter changes only the list behind its '
                 'context\'s segment handle and the shared environment',
                 'MEXP: Pass0Context::last_segment() is read as "the last element of the list" (its body is slice::last + Rc::clone)',
                 'R21: `.iter()[.enumerate()].filter(|..| P).map(|..| E).collect()` as the index loop `if P { out.push(E) }` (closure bodies verbatim)',
                 'build_pass_0: the struct literal of its Pass0Context is verified as written (Macro::new() is read as the empty macro state)',
                 'R17: for x in v.iter().skip(1) as an index loop'],
    trusted=['spec/macro_sem.py (witness generator and textual hand expansion)'],
    bounded=['150 (quick) / 1500 (thorough) generated macro programs (registers, pointer forms, expressions of every precedence with and without '
             'parentheses as arguments; conditionals on parameters; nested calls; bodies switching segments; calls before the definition; any '
             'letter case) built with macros and hand-expanded; 4 fixed error cases'],
    not_decided=['argument rendering (Display) and the re-parse of substituted text: witnesses only'],
)
