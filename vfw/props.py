"""Registry: which units, harnesses and witness families decide which property."""
import os
import random
import sys

from .core import VERIF
from .driver import WitnessResult
from . import replay

sys.path.insert(0, os.path.join(VERIF, 'spec'))

PROPS = {}


# ------------------------------------------------------------------------------------------------ C07
def witnesses_c07(tier, seed):
    import ihex_sem
    rnd = random.Random(seed or 7)
    lens = [0, 1, 15, 16, 17, 255, 256, 4097, 65535, 65536, 65537]
    if tier == 'thorough':
        lens += list(range(2, 15)) + list(range(18, 600)) + [131071, 131072, 131073, 1048575, 1048576, 1048577, 1048576 + 65536 + 1,
                                                              524288, 2 * 1048576 + 5]
    jobs, imgs, names = [], [], []
    for n in lens:
        for which in ('code', 'eeprom'):
            if which == 'eeprom' and n > 70000:
                continue
            img = bytes(rnd.randrange(256) for _ in range(n)) if n < 70000 else bytes((i * 131 + (i >> 8) * 7 + (i >> 16)) & 0xff for i in range(n))
            jobs.append('hex %s\n%s' % (which, img.hex()))
            imgs.append(img)
            names.append('hexfile:%s:len=%d' % (which, n))
    res = replay.run_jobs(jobs, timeout_per_job=60)
    out = []
    for name, job, img, r in zip(names, jobs, imgs, res):
        if r.get('status') != 'ok':
            out.append(WitnessResult(name, job, False, r, 'a HEX file that decodes to the image', 'hex/generate_hex_from_segment'))
            continue
        probs = ihex_sem.check_image(r['file'], img)
        out.append(WitnessResult(name, job, not probs, probs or 'decodes to the image',
                                 'file decodes (independent reader) to exactly the image', 'hex/generate_hex_from_segment'))
    return out


PROPS['C07'] = dict(
    level_text='Proof (Verus, unbounded): for every image, generate_hex_from_segment returns the rendering of a record list that an '
               'independent Intel HEX reader (spec fold) decodes to exactly the image, and it succeeds up to 4 GiB. Rendering by the '
               'ihex crate, CRLF conversion and file I/O are assumed and exercised only by a bounded native witness family.',
    level_note='assumes the ihex crate renders records correctly, std slice/Vec contracts, rewrite R5 (chunks/enumerate as index loop); '
               'write_*_hex I/O wrapper covered by bounded witnesses only',
    technique='Verus loop invariant + postcondition against a spec-level Intel HEX reader, on the extracted function',
    verus=['hex'],
    witnesses=witnesses_c07,
    functions=['writer::generate_hex_from_segment (src/writer.rs) -- extracted verbatim, rules R5 R1'],
    explanation='Verus proves, for every byte slice (no length bound), that generate_hex_from_segment returns the ihex rendering of a record '
                'list which an independent Intel HEX reader (spec fold rd/rd_step in contracts/hex.vspec) decodes to exactly the image: '
                'every byte once at its address, none elsewhere, one EOF record at the end, and that it succeeds for every image of at '
                'most 4 GiB.  Panic-freedom (index, overflow, cast) of the body is part of the same obligations.',
    assumptions=[
        'A-ihex: ihex::create_object_file_representation renders each Record as one well-formed line with a valid checksum and fails '
        'only for a missing/duplicate EOF or a data record > 255 bytes (external crate, contract assumed from its source)',
        'write_code_hex / write_eeprom_hex (LF->CRLF replacement, File::create, write_all) are I/O and string code outside the '
        'verifier: covered only by the bounded witness family (listed lengths, decoded by spec/ihex_sem.py)',
        'R5: `for (i, c) in s.chunks(16).enumerate()` is replaced by its std definition as an index loop',
        'slices are at most isize::MAX bytes long (Rust language guarantee) ; usize is 64 bit',
        'generate_hex (the two-line caller) passes br.code / br.eeprom unchanged: read, not verified',
    ],
    trusted=['ihex 3.0 crate', 'std Vec / slice::to_vec contracts from vstd'],
    bounded=['witness family: image lengths 0,1,15,16,17,255,256,4097,65535,65536,65537 (quick) plus every length below 600 and the '
             '128 KiB / 1 MiB / 2 MiB boundaries (thorough) written by the real write_code_hex / write_eeprom_hex and decoded by an '
             'independent reader -- bounded, covers the assumed ihex rendering and CRLF conversion only on those inputs'],
)
