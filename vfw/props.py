"""Registry: which units, harnesses and witness families decide which property."""
import os
import re
import random
import sys

from .core import VERIF
from .driver import WitnessResult
from . import replay

sys.path.insert(0, os.path.join(VERIF, 'spec'))

PROPS = {}


def _conv_harnesses(tier):
    import expr_gen
    return expr_gen.conv_harness_names(tier)


# ------------------------------------------------------------------------------------------------ C07
def witnesses_c07(tier, seed):
    import ihex_sem
    rnd = random.Random(seed or 7)
    lens = [0, 1, 15, 16, 17, 255, 256, 4097, 65535, 65536, 65537]
    if tier == 'thorough':
        lens += list(range(2, 15)) + list(range(18, 600)) + [131071, 131072, 131073, 1048575, 1048576, 1048577, 1048576 + 65536 + 1,
                                                              524288, 2 * 1048576 + 5]
    jobs, imgs, names = [], [], []
    for n in lens:
        for which in ('code', 'eeprom'):
            if which == 'eeprom' and n > 70000:
                continue
            img = bytes(rnd.randrange(256) for _ in range(n)) if n < 70000 else bytes((i * 131 + (i >> 8) * 7 + (i >> 16)) & 0xff for i in range(n))
            jobs.append('hex %s\n%s' % (which, img.hex()))
            imgs.append(img)
            names.append('hexfile:%s:len=%d' % (which, n))
    res = replay.run_jobs(jobs, timeout_per_job=60)
    out = []
    for name, job, img, r in zip(names, jobs, imgs, res):
        if r.get('status') != 'ok':
            out.append(WitnessResult(name, job, False, r, 'a HEX file that decodes to the image', 'hex/generate_hex_from_segment'))
            continue
        probs = ihex_sem.check_image(r['file'], img)
        out.append(WitnessResult(name, job, not probs, probs or 'decodes to the image',
                                 'file decodes (independent reader) to exactly the image', 'hex/generate_hex_from_segment'))
    return out


PROPS['C07'] = dict(
    level_text='Proof (Verus, unbounded): for every image, generate_hex_from_segment returns the rendering of a record list that an '
               'independent Intel HEX reader (spec fold) decodes to exactly the image, and it succeeds up to 4 GiB. Rendering by the '
               'ihex crate, CRLF conversion and file I/O are assumed and exercised only by a bounded native witness family.',
    level_note='assumes the ihex crate renders records correctly, std slice/Vec contracts, rewrite R5 (chunks/enumerate as index loop); '
               'write_*_hex I/O wrapper covered by bounded witnesses only',
    technique='Verus loop invariant + postcondition against a spec-level Intel HEX reader, on the extracted function',
    verus=['hex'],
    witnesses=witnesses_c07,
    functions=['writer::generate_hex_from_segment (src/writer.rs) -- extracted verbatim, rules R5 R1'],
    explanation='Verus proves, for every byte slice (no length bound), that generate_hex_from_segment returns the ihex rendering of a record '
                'list which an independent Intel HEX reader (spec fold rd/rd_step in contracts/hex.vspec) decodes to exactly the image: '
                'every byte once at its address, none elsewhere, one EOF record at the end, and that it succeeds for every image of at '
                'most 4 GiB.  Panic-freedom (index, overflow, cast) of the body is part of the same obligations.',
    assumptions=[
        'A-ihex: ihex::create_object_file_representation renders each Record as one well-formed line with a valid checksum and fails '
        'only for a missing/duplicate EOF or a data record > 255 bytes (external crate, contract assumed from its source)',
        'write_code_hex / write_eeprom_hex (LF->CRLF replacement, File::create, write_all) are I/O and string code outside the '
        'verifier: covered only by the bounded witness family (listed lengths, decoded by spec/ihex_sem.py)',
        'R5: `for (i, c) in s.chunks(16).enumerate()` is replaced by its std definition as an index loop',
        'slices are at most isize::MAX bytes long (Rust language guarantee) ; usize is 64 bit',
        'generate_hex (the two-line caller) passes br.code / br.eeprom unchanged: read, not verified',
    ],
    trusted=['ihex 3.0 crate', 'std Vec / slice::to_vec contracts from vstd'],
    bounded=['witness family: image lengths 0,1,15,16,17,255,256,4097,65535,65536,65537 (quick) plus every length below 600 and the '
             '128 KiB / 1 MiB / 2 MiB boundaries (thorough) written by the real write_code_hex / write_eeprom_hex and decoded by an '
             'independent reader -- bounded, covers the assumed ihex rendering and CRLF conversion only on those inputs'],
)


# ------------------------------------------------------------------------------------------------ ENC: C01 C03 C04
def _enc_harnesses(filter_fn=None):
    def f(tier):
        import isa_gen
        hs = isa_gen.harness_names(tier)
        if filter_fn:
            hs = [h for h in hs if filter_fn(h[0])]
        return hs
    return f


def _enc_cex(slice_name, failure):
    import enc_replay
    return enc_replay.cex_for(slice_name, failure)


def _enc_witness_from_cex(f):
    import enc_replay
    return enc_replay.witness_from_cex(f)


def _is_rel_harness(h):
    import isa
    m = re.match(r'enc_one_(\w+?)_(\d+)$', h)
    if not m:
        return False
    return any(k in ('REL7', 'REL12') for r in isa.ROWS if r['mn'] == m.group(1) for k in r['ops'])


def witnesses_enc(only_rel=False):
    def run(tier, seed):
        """binding witnesses: one source line per ISA row and boundary operand tuple through the real grammar + pipeline"""
        import isa
        rnd = random.Random(seed or 11)
        jobs, exp, names = [], [], []

        def vals(kind):
            if kind in isa.IDX:
                return [None]
            cls, _, legal, _ = isa.KINDS[kind]
            if cls == 'reg':
                good = [r for r in range(32) if legal(r)]
                return [good[0], good[-1], rnd.choice(good)]
            if cls == 'expr':
                cand = [-129, -128, -1, 0, 1, 7, 8, 31, 32, 63, 64, 0x3f, 0x40, 0xbf, 0xc0, 255, 256, 65535, 65536, 4194303, 4194304]
                good = [k for k in cand if legal(k)]
                bad = [k for k in cand if not legal(k)]
                return [good[0], good[-1], rnd.choice(good)] + bad[:1] + bad[-1:]
            return ['rel']
        for r in isa.ROWS:
            if only_rel and not any(k in ('REL7', 'REL12') for k in r['ops']):
                continue
            per_op = [vals(k) for k in r['ops']]
            n = max([len(v) for v in per_op] + [1])
            for t in range(n):
                addr = [0, 5, 300][t % 3]
                txt, ors = [], []
                for kind, vs in zip(r['ops'], per_op):
                    v = vs[t % len(vs)]
                    if kind in isa.IDX:
                        if isa.IDX[kind][2]:
                            q = [0, 63, 17, 64, -1][t % 5]
                            txt.append('%s+%s' % (kind[0], q if q >= 0 else '(%d)' % q))
                            ors.append(('idx', kind, q))
                        else:
                            txt.append(kind)
                            ors.append(('idx', kind, 0))
                    elif v == 'rel':
                        lim = 64 if kind == 'REL7' else 2048
                        d = [-lim, lim - 1, 0, lim, -lim - 1][t % 5]
                        k = addr + 1 + d
                        txt.append(str(k) if k >= 0 else '(%d)' % k)
                        ors.append(('expr', k))
                    elif isa.KINDS[kind][0] == 'reg':
                        txt.append(('r%d' if t % 2 == 0 else 'R%d') % v)
                        ors.append(('reg', v))
                    else:
                        txt.append(('0x%x' % v) if (t % 2 and v >= 0) else (str(v) if v >= 0 else '(%d)' % v))
                        ors.append(('expr', v))
                avr8l = r['core'] == 'avr8l'
                src = ('.device ATtiny20\n' if avr8l else '') + ('.org %d\n' % addr if addr else '') + '%s %s\n' % (r['mn'] if t % 2 == 0 else r['mn'].upper(), ', '.join(txt))
                w = isa.encode(r['mn'], ors, addr, avr8l)
                jobs.append('build\n' + src)
                exp.append((addr, None if w is None else isa.le_bytes(w).hex()))
                names.append('asm:%s' % src.strip().replace('\n', ' ; '))
        res = replay.run_jobs(jobs)
        out = []
        for name, job, (addr, e), r in zip(names, jobs, exp, res):
            if r.get('status') == 'ok':
                got = r['code'][4 * addr:]
            elif r.get('status') == 'err':
                got = None
            else:
                got = r.get('status')
            ok = (got == e)
            out.append(WitnessResult(name, job, ok, got if got is not None else 'error: ' + r.get('err', '')[:120],
                                     e if e is not None else 'error', 'enc/'))
        return out
    return run


ENC_ASSUME = [
    'grammar: that the text of a mnemonic / register / pointer form is parsed to the Operation / Reg8 / IndexOps variant of the same name '
    '(peg grammar + strum from_str) is outside the verifiers; bound only by the native binding witnesses (one line per ISA row)',
    'ENC slice abstraction: an expression operand is represented by its value (Expr::Const(v) stands for any tree evaluating to v; '
    'Expr::run has its own contract in unit EXPR); process observes expressions only through run/get_byte/get_bit_index/get_r8',
    'R3: &dyn Context is the abstract view of its only implementor CommonContext (alias table, Avr8l flag, symbol lookup)',
    'R13: byteorder LittleEndian::write_u16 stores the low byte first (external crate)',
    'Reg8::number/SFlags::number: `self as u16` = declaration index -- checked bit-precisely by Kani (part of every leaf), assumed with its range in Verus',
    'oracle: spec/isa.py transcribes the AVR Instruction Set Manual; its self-consistency (no two canonical rows share a word) is re-checked on every thorough run',
]

PROPS['C01'] = dict(
    level_text='Proof: (Kani/CBMC, complete: loop-free code over the full value domain) for each of the 116 mnemonic x operand-signature '
               'forms, the real instruction::process returns exactly the word(s) of the AVR ISA table, low byte first, for ALL register '
               'numbers, i64 constants, displacements, pointer forms, addresses (u32), both cores and any .def alias binding, and Err '
               'outside the legal sets; (Verus, unbounded) the emitted length is 2*words(op) and info().len == words(op) for every operation.',
    level_note='assumes the grammar maps mnemonic/register text to the like-named enum variant (binding witnesses only), byteorder, '
               'and the leaf abstraction of expression operands; placement in the image is C02',
    technique='Kani contract harnesses (process == generated ISA oracle) on the extracted encoder + Verus structural contract',
    verus=['encv'],
    kani=[dict(slice='enc', harnesses=_enc_harnesses(), cex=_enc_cex)],
    cex_replay=_enc_witness_from_cex,
    witnesses=witnesses_enc(),
    functions=['instruction::process', 'Operation::info', 'Reg8::number', 'SFlags::number', 'BranchT::number',
               'InstructionOps::get_r8/get_expr/get_index', 'Expr::get_byte', 'Expr::get_bit_index (src/instruction/*.rs, src/expr.rs)'],
    explanation='Kani: 116 harnesses, each one call of the extracted process() with symbolic operand values checked against the oracle '
                'generated from spec/isa.py (exact bytes on Ok, Err exactly outside the legal set). Verus: process() verbatim, contract '
                'over operand vectors of every length (count/kind/length/panic-freedom).',
    assumptions=ENC_ASSUME,
    trusted=['spec/isa.py (ISA table) and spec/isa_gen.py (oracle generator)'],
    bounded=['binding witnesses: ~500 concrete source lines (every ISA row at boundary operand values, both letter cases) through the '
             'real build_str, compared with the python oracle -- bounded, covers the assumed grammar mapping only on those inputs'],
    not_decided=['mnemonic/register recognition by the PEG grammar (assumed)', 'the decoder clause is implemented as a self-consistency '
                 'check of the oracle table (thorough tier), not as a contract on /repo code'],
)
PROPS['C04'] = dict(
    level_text='Proof: (Verus, unbounded) process() is Ok only if the operand count and the kind of every operand are the ones the ISA '
               'defines for the mnemonic -- for operand vectors of every length; (Kani, complete) within the right kinds it is Ok exactly '
               'on the legal value sets of the ISA table and then emits the reference encoding; get_byte/get_bit_index ranges are part of '
               'the extracted slice.',
    level_note='same assumptions as C01; where the ISA leaves a spelling open (displacement form under ld/st, plain forms under ldd/std) '
               'the clause is the one of observe_at: if Ok, the bytes are the reference encoding of the pointer form as written',
    technique='Verus postcondition Ok ==> shape_ok on the extracted process + Kani contract harnesses against the ISA oracle (Err side)',
    verus=['encv', 'expr'],
    kani=[dict(slice='enc', harnesses=_enc_harnesses(), cex=_enc_cex), dict(slice='conv', harnesses=lambda tier: _conv_harnesses(tier))],
    cex_replay=_enc_witness_from_cex,
    witnesses=witnesses_enc(),
    functions=PROPS['C01']['functions'],
    explanation=PROPS['C01']['explanation'],
    assumptions=ENC_ASSUME,
    trusted=PROPS['C01']['trusted'],
    bounded=PROPS['C01']['bounded'],
)
PROPS['C03'] = dict(
    level_text='Proof (Kani/CBMC, complete): for rjmp, rcall, brbs, brbc and the 18 br* aliases, for every target k: i64 and every '
               'instruction address (u32): process() is Ok iff d = k-(addr+1) (computed in 128-bit in the oracle) lies in the field range, '
               'and then the field is d mod 2^7 / 2^12 in the right bits with the right condition bits; otherwise Err, never a wrapped '
               'field, never a panic. That pass 2 passes the address of the item being emitted and sets pc to it is the call-site '
               'obligation of unit PASS2 (C02).',
    level_note='label values and the address passed to process() are C02 (unit PASS2); grammar and expression parsing assumed',
    technique='Kani contract harnesses on the extracted relative-branch arms of process against the ISA oracle',
    verus=['encv'],
    kani=[dict(slice='enc', harnesses=_enc_harnesses(_is_rel_harness), cex=_enc_cex)],
    cex_replay=_enc_witness_from_cex,
    witnesses=witnesses_enc(only_rel=True),
    functions=['instruction::process (Rjmp|Rcall and Br arms)', 'BranchT::number', 'Expr::get_bit_index'],
    explanation='22 Kani harnesses (every relative mnemonic) over all (k, addr) pairs: 2^64 x 2^32, symbolically.',
    assumptions=ENC_ASSUME,
    trusted=PROPS['C01']['trusted'],
    bounded=['binding witnesses at both range limits and one beyond, forward and backward, at three addresses'],
)


# ------------------------------------------------------------------------------------------------ C05
def _step_harnesses(tier):
    import expr_gen
    return expr_gen.step_harness_names(tier)


def _conv_harnesses(tier):
    import expr_gen
    return expr_gen.conv_harness_names(tier)


def witnesses_c05(tier, seed):
    import expr_sem
    ws = expr_sem.witnesses(2500 if tier == 'quick' else 12000, seed or 3)
    # remainder values are not decided by a verifier (see bounded): add a dense grid for %
    grid = [0, 1, -1, 2, -2, 3, -3, 7, -7, 10, 255, -256, 65537, expr_sem.I64_MAX, expr_sem.I64_MIN + 1]
    for a in grid:
        for b in grid:
            ta = str(a) if a >= 0 else '(-%d)' % -a
            tb = str(b) if b >= 0 else '(-%d)' % -b
            for op in ('%', '/'):
                try:
                    e = expr_sem.binop(op, a, b)
                except expr_sem.Fail:
                    e = None
                ws.append(('%s %s %s' % (ta, op, tb), e))
    res = replay.run_jobs(['build\n.dq %s\n' % w[0] for w in ws])
    out = []
    for (src, e), r in zip(ws, res):
        if r.get('status') == 'ok':
            got = int.from_bytes(bytes.fromhex(r['code']), 'little', signed=True)
        else:
            got = None if r.get('status') == 'err' else r.get('status')
        out.append(WitnessResult('expr:' + src, 'build\n.dq %s\n' % src, got == e, got if got is not None else 'error ' + r.get('err', '')[:100],
                                 e if e is not None else 'build fails', 'expr/'))
    return out


PROPS['C05'] = dict(
    level_text='Proof: (Verus, unbounded) Expr::run/run_nested verbatim: terminates, never panics, and agrees with the recursive oracle '
               'eval() built from the operator table on expression trees of every shape and depth (one labelled clause per operator), '
               'incl. checked arithmetic, zero divisor, shift-amount and nesting-limit failures and identifier lookup; (Kani, complete) '
               'each operator/function step of the same function equals an independent i128 div/mod twin for all i64 operands. '
               'Precedence, associativity and literal forms live in the PEG grammar and are only bound by native witnesses.',
    level_note='assumes: grammar (precedence!/e_const), to_lowercase/checked_neg std contracts, str injectivity axiom; quotient value of / '
               'is proved only in the thorough tier (4 min SAT), remainder value of % only on a bounded grid (CBMC gave up); log2 unspecified',
    technique='Verus recursion/termination proof against a spec interpreter + Kani per-operator step harnesses (recursion stubbed, R14)',
    verus=['expr'],
    kani=[dict(slice='exprstep', harnesses=_step_harnesses), dict(slice='conv', harnesses=_conv_harnesses)],
    witnesses=witnesses_c05,
    functions=['Expr::run', 'Expr::run_nested', 'Expr::get_byte/get_bit_index/get_words/get_double_words/get_quad_words (src/expr.rs)'],
    explanation='eval() in contracts/expr.vspec is the oracle (operator table of the property); agrees(run(e), eval(e)) is proved by '
                'induction on the tree with decreases (nesting budget, tree). The Kani step slice replaces the recursive calls by a stub '
                'returning the child value (R14) and compares every operator with an independent twin for all 2^128 operand pairs.',
    assumptions=[
        'grammar: precedence, associativity, literal radix forms are in peg::parser! (document.rs) -- outside both verifiers; bound only by '
        '2500 (quick) / 12000 (thorough) generated expressions (every operator on a boundary grid, every ordered operator pair without '
        'parentheses, random trees with minimal parentheses and mixed literal forms) evaluated natively through `.dq` and compared '
        'with spec/expr_sem.py',
        'Verus treats bit operators definitionally (same expression in spec and code); their independent meaning (div/mod twin) is the Kani step',
        'R14 (Kani step only): recursive calls replaced by a stub returning the child value; the recursion itself is the Verus proof',
        'vstd specs of checked_add/sub/mul/div/rem; assumed: i64::checked_neg, str::to_lowercase (uninterpreted lower()), str view injectivity',
        'log2 is not in the operator table of the property: any outcome accepted (panic-freedom and termination of its loop are proved)',
    ],
    trusted=['spec/expr_sem.py (python twin used for the grammar witnesses)'],
    bounded=['value of % (remainder): CBMC did not finish (>15 min) on the 64-bit divider; covered on a 15x15 boundary grid natively; its '
             'failure conditions (zero divisor, MIN % -1) ARE proved by Verus',
             'value of / (quotient): proved by Kani against the division theorem only in the thorough tier; quick: same grid'],
    not_decided=['precedence/associativity/literals (grammar): witnesses only'],
)
