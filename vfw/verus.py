"""Run Verus on one generated unit file and classify what it says."""
import json
import os
import re
import subprocess
import time

DEFINITE = (
    'postcondition not satisfied',
    'precondition not satisfied',
    'invariant not satisfied',
    'assertion failed',
    'possible arithmetic underflow/overflow',
    'possible division by zero',
    'possible bit shift underflow/overflow',
    'decreases not satisfied',
    'could not prove termination',
    'recommendation not met',
    'unreachable',
    'index out of bounds',
    'possible truncation',
    'unable to prove',
    'possible attempt to',
)


class VerusResult:
    def __init__(self):
        self.ok_json = False
        self.verified = 0
        self.errors = 0
        self.functions = {}     # name -> dict(success, time_us, rlimit)
        self.diags = []         # dict(message, line, col, text, level, labels[], kind)
        self.wall_s = 0.0
        self.smt_ms = 0
        self.cmd = ''
        self.raw_stderr = ''
        self.crashed = False
        self.version = ''


def classify(msg):
    m = msg.lower()
    if 'rlimit' in m or 'resource limit' in m:
        return 'rlimit'
    for d in DEFINITE:
        if d in m:
            return 'definite'
    if m.startswith('aborting due to'):
        return 'summary'
    return 'tool'   # type errors, unsupported features, loop without decreases, ... -> UNDECIDED


def run(path, rlimit=None, extra=(), timeout=900, threads=None):
    cmd = ['verus', path, '--output-json', '--error-format=json', '--time', '--multiple-errors', '64']
    if rlimit:
        cmd += ['--rlimit', str(rlimit)]
    if threads:
        cmd += ['--num-threads', str(threads)]
    cmd += list(extra)
    r = VerusResult()
    r.cmd = ' '.join(cmd)
    t0 = time.time()
    try:
        p = subprocess.run(cmd, capture_output=True, text=True, timeout=timeout, cwd=os.path.dirname(path) or '.')
    except subprocess.TimeoutExpired:
        r.crashed = True
        r.raw_stderr = 'timeout after %ds' % timeout
        r.wall_s = time.time() - t0
        return r
    r.wall_s = time.time() - t0
    r.raw_stderr = p.stderr
    try:
        j = json.loads(p.stdout)
        r.ok_json = True
        vr = j.get('verification-results', {})
        r.verified = vr.get('verified', 0)
        r.errors = vr.get('errors', 0)
        r.encountered_vir_error = vr.get('encountered-vir-error', False)
        r.version = j.get('verus', {}).get('version', '')
        smt = j.get('times-ms', {}).get('smt', {})
        r.smt_ms = smt.get('total', 0)
        for mod in smt.get('smt-run-module-times', []):
            for f in mod.get('function-breakdown', []):
                name = f['function']
                d = r.functions.setdefault(name, dict(success=True, time_us=0, rlimit=0, mode=f.get('mode:', '')))
                d['success'] = d['success'] and f.get('success', False)
                d['time_us'] += f.get('time-micros', 0)
                d['rlimit'] += f.get('rlimit', 0)
    except Exception:
        r.ok_json = False
    for line in p.stderr.split('\n'):
        line = line.strip()
        if not line.startswith('{'):
            continue
        try:
            d = json.loads(line)
        except Exception:
            continue
        if d.get('$message_type') != 'diagnostic':
            continue
        if d.get('level') not in ('error',):
            continue
        msg = d.get('message', '')
        kind = classify(msg)
        if kind == 'summary':
            continue
        spans = d.get('spans', [])
        prim = [s for s in spans if s.get('is_primary')] or spans
        line_no = prim[0]['line_start'] if prim else 0
        fname = prim[0]['file_name'] if prim else ''
        text = prim[0]['text'][0]['text'].strip() if prim and prim[0].get('text') else ''
        labels = [(s['line_start'], s.get('label') or '', s['text'][0]['text'].strip() if s.get('text') else '') for s in spans]
        r.diags.append(dict(message=msg, line=line_no, file=fname, text=text, labels=labels, kind=kind,
                            rendered=d.get('rendered', '')))
    if not r.ok_json and not r.diags:
        r.crashed = True
    return r
