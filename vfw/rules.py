"""The rewrite table of DESIGN.md section 3.  Every rule works on the text of ONE extracted item and
returns (new_text, [log entries]).  A rule never invents code: it replaces one syntactic form by another
that the verifier accepts, and each application is logged (rule id, snippet) into the evidence.
"""
import re
from .rsitems import mask, match_brace, ScanError


class RewriteError(Exception):
    pass


def _split_args(text):
    """split a macro/call argument list at top-level commas (string/brace aware)"""
    msk = mask(text)
    parts, depth, last = [], 0, 0
    for i, ch in enumerate(msk):
        if ch in '([{':
            depth += 1
        elif ch in ')]}':
            depth -= 1
        elif ch == ',' and depth == 0:
            parts.append(text[last:i])
            last = i + 1
    tail = text[last:]
    if tail.strip():
        parts.append(tail)
    return [p.strip() for p in parts]


def _macro_calls(text, name):
    """yield (start, end, inner) for every `name!( ... )` in text, outermost first, non-overlapping"""
    msk = mask(text)
    pos = 0
    pat = re.compile(r'(?<![A-Za-z0-9_])%s!\s*\(' % re.escape(name))
    while True:
        m = pat.search(msk, pos)
        if not m:
            return
        op = m.end() - 1
        cl = match_brace(msk, op)
        yield m.start(), cl + 1, text[op + 1:cl]
        pos = cl + 1


LOC_IDENTS = ('point', 'line')


def r1_bail(text, log, loc_idents=LOC_IDENTS):
    """R1: bail!(fmt, args..) -> return Err(verr_at(<loc>)) / return Err(verr_none()).
    <loc> is the first argument that is one of the location identifiers or a `CodePoint { .. }` literal.
    Dropped: the message text.  Kept: whether (and which) source location the error carries."""
    out, last = [], 0
    for s, e, inner in _macro_calls(text, 'bail'):
        args = _split_args(inner)
        loc = None
        for a in args[1:]:
            a1 = a.rstrip(',').strip()
            if a1 in loc_idents:
                loc = a1
                break
            if re.match(r'CodePoint\s*\{', a1):
                loc = a1
                break
        if loc is None:
            rep = 'return Err(verr_none())'
        else:
            rep = 'return Err(verr_at(loc_of(%s)))' % loc
        # `bail!(..)` used as an expression statement may or may not be followed by ';' / ',' -- keep what follows
        out.append(text[last:s])
        out.append(rep)
        last = e
        log.append(('R1', 'bail!(%s) -> %s' % (' '.join(inner.split())[:70], rep)))
    out.append(text[last:])
    return ''.join(out)


def r2_format(text, log):
    """R2: format!(..) -> fmt_stub() (opaque String).  Dropped: message text."""
    out, last = [], 0
    for s, e, inner in _macro_calls(text, 'format'):
        out.append(text[last:s])
        out.append('fmt_stub()')
        last = e
        log.append(('R2', 'format!(%s)' % ' '.join(inner.split())[:60]))
    out.append(text[last:])
    return ''.join(out)


def r3_dyn_context(text, log, to='Ctx'):
    """R3: &dyn Context -> &Ctx (abstract view of the single implementor CommonContext)."""
    n = len(re.findall(r'&\s*dyn\s+Context\b', text))
    if n:
        log.append(('R3', '%d x &dyn Context -> &%s' % (n, to)))
    return re.sub(r'&\s*dyn\s+Context\b', '&' + to, text)


def r4_extend(text, log):
    """R4: <recv>.extend(<arg>) -> vec_extend(&mut <recv>, <arg>) for Vec<u8> receivers that are plain identifiers."""
    msk = mask(text)
    out, last = [], 0
    for m in re.finditer(r'(?<![A-Za-z0-9_.])([a-z_][a-z0-9_]*)\.extend\s*\(', msk):
        op = m.end() - 1
        cl = match_brace(msk, op)
        out.append(text[last:m.start()])
        out.append('vec_extend(&mut %s, %s)' % (m.group(1), text[op + 1:cl].strip()))
        last = cl + 1
        log.append(('R4', '%s.extend(%s)' % (m.group(1), ' '.join(text[op + 1:cl].split())[:40])))
    out.append(text[last:])
    return ''.join(out)


def r5_chunks(text, log):
    """R5: `for (i, c) in s.chunks(N).enumerate() {BODY}` ->
           `let mut i: usize = 0; while i * N < s.len() { let c = subslice(s, i * N, min_usize(i * N + N, s.len())); BODY i += 1; }`
       which is std's definition of chunks(N) composed with enumerate()."""
    msk = mask(text)
    m = re.search(r'for\s*\(\s*(\w+)\s*,\s*(\w+)\s*\)\s*in\s*(\w+)\.chunks\((\d+)\)\.enumerate\(\)\s*\{', msk)
    if not m:
        return text
    i, c, s, n = m.group(1), m.group(2), m.group(3), m.group(4)
    op = m.end() - 1
    cl = match_brace(msk, op)
    body = text[op + 1:cl]
    rep = ('let mut %s: usize = 0;\n        while %s * %s < %s.len() /*@LOOP*/ {\n            let %s = subslice(%s, %s * %s, min_usize(%s * %s + %s, %s.len()));%s    %s += 1;\n        }'
           % (i, i, n, s, c, s, i, n, i, n, n, s, body, i))
    log.append(('R5', 'for (%s, %s) in %s.chunks(%s).enumerate() -> while' % (i, c, s, n)))
    return text[:m.start()] + rep + text[cl + 1:]


def r17_iter_skip(text, log):
    """R17: `for X in Y.iter().skip(N) {BODY}` -> `let mut vfw_k: usize = N; while vfw_k < Y.len() { let X = &Y[vfw_k]; BODY vfw_k += 1; }`
    (std: skip(N) of a slice iterator yields the elements from index N on, in order)"""
    msk = mask(text)
    m = re.search(r'for\s+(\w+)\s+in\s+(\w+)\.iter\(\)\.skip\((\d+)\)\s*\{', msk)
    if not m:
        return text
    x, y, n = m.group(1), m.group(2), m.group(3)
    op = m.end() - 1
    cl = match_brace(msk, op)
    body = text[op + 1:cl]
    rep = ('let mut vfw_k: usize = %s;\n        while vfw_k < %s.len() /*@LOOP*/ {\n            let %s = &%s[vfw_k];%s    vfw_k += 1;\n        }'
           % (n, y, x, y, body))
    log.append(('R17', 'for %s in %s.iter().skip(%s) -> index loop' % (x, y, n)))
    return text[:m.start()] + rep + text[cl + 1:]


def r18_iter_seq(text, log):
    """R18: `for X in E {BODY}` where E iterates an ordered std set (`S.iter()`, `A.difference(&B)`) ->
         `let vfw_sN = iter_seq(E); let mut vfw_kN: usize = 0; while vfw_kN < vfw_sN.len() { let X = &vfw_sN[vfw_kN]; vfw_kN += 1; BODY }`
    std: a `for` loop is `while let Some(X) = it.next()`; the items are materialised by the prelude stub `iter_seq`
    (contract: the elements of the set, each once).  The index is advanced before BODY so that `break` /
    early exits inside the verbatim BODY need no change."""
    n = 0
    while True:
        msk = mask(text)
        m = None
        for cand in re.finditer(r'(?<![A-Za-z0-9_])for\s+(\w+)\s+in\s+', msk):
            # header ends at first '{' at depth 0
            depth, k, brace = 0, cand.end(), -1
            while k < len(msk):
                ch = msk[k]
                if ch in '([':
                    depth += 1
                elif ch in ')]':
                    depth -= 1
                elif ch == '{' and depth == 0:
                    brace = k
                    break
                k += 1
            if brace < 0:
                continue
            e = text[cand.end():brace].strip()
            if re.search(r'\.iter\(\)$', e) or '.difference(' in e:
                m = (cand, brace, e)
                break
        if not m:
            break
        cand, brace, e = m
        n += 1
        x = cand.group(1)
        cl = match_brace(msk, brace)
        body = text[brace + 1:cl]
        rep = ('let vfw_s%d = iter_seq(%s);\n    let mut vfw_k%d: usize = 0;\n    while vfw_k%d < vfw_s%d.len() {\n        let %s = &vfw_s%d[vfw_k%d];\n        vfw_k%d += 1;%s}'
               % (n, e, n, n, n, x, n, n, n, body))
        log.append(('R18', 'for %s in %s -> index loop over iter_seq(..)' % (x, ' '.join(e.split())[:60])))
        text = text[:cand.start()] + rep + text[cl + 1:]
    return text


def r6_std_consts(text, log):
    """R6: std::u32::MAX -> u32::MAX etc."""
    pat = r'std::(u8|u16|u32|u64|i8|i16|i32|i64|usize)::(MAX|MIN)'
    n = len(re.findall(pat, text))
    if n:
        log.append(('R6', '%d x std::<int>::MAX/MIN' % n))
    return re.sub(pat, r'\1::\2', text)


def r7_derives(text, log, keep=None):
    """R7: strip #[derive(..)], #[strum(..)], #[fail(..)] attributes; re-add `keep` derives if given."""
    n = 0

    def sub(m):
        nonlocal n
        n += 1
        return ''
    text = re.sub(r'(?m)^[ \t]*#\[(derive|strum|fail)\([^\]]*\)\]\s*\n', sub, text)
    if n:
        log.append(('R7', '%d derive/strum/fail attributes dropped%s' % (n, (', re-derived: ' + keep) if keep else '')))
    if keep:
        text = '#[derive(%s)]\n' % keep + text
    return text


def r10_fold(text, log):
    """R10: `xs.iter().fold(init, |acc, x| e)` as the whole fn body expression -> equivalent for loop."""
    msk = mask(text)
    m = re.search(r'(\w+)\.iter\(\)\.fold\(\s*([^,]+),\s*\|\s*(\w+)\s*,\s*(\w+)\s*\|\s*', msk)
    if not m:
        return text
    op = msk.rfind('(', 0, m.end())
    # find the '(' of fold
    fold_open = msk.find('fold(', m.start()) + 4
    cl = match_brace(msk, fold_open)
    expr = text[m.end():cl].strip()
    recv, init, acc, x = m.group(1), text[m.start(2):m.end(2)].strip(), m.group(3), m.group(4)
    rep = ('{ let mut %s: usize = %s; for %s in %s.iter() /*@LOOP*/ { %s = %s; } %s }' % (acc, init, x, recv, acc, expr, acc))
    log.append(('R10', '%s.iter().fold(%s, |%s, %s| %s) -> for loop' % (recv, init, acc, x, expr)))
    return text[:m.start()] + rep + text[cl + 1:]


def r13_byteorder(text, log):
    """R13: LittleEndian::write_uNN(&mut buf, v) stays as is: the prelude provides a `LittleEndian` shim carrying
    the byteorder contract.  Only logged."""
    n = len(re.findall(r'LittleEndian::write_u(16|32|64)', text))
    if n:
        log.append(('R13', '%d x LittleEndian::write_uNN -> prelude shim with byteorder contract' % n))
    return text


def generic_sub(text, log, rid, pattern, repl, expect=None):
    new, n = re.subn(pattern, repl, text)
    if expect is not None and n != expect:
        raise RewriteError('%s: pattern %r matched %d times, expected %d' % (rid, pattern, n, expect))
    if n:
        log.append((rid, '%d x /%s/ -> %s' % (n, pattern, repl)))
    return new


RULES = {
    'R1': r1_bail,
    'R2': r2_format,
    'R3': r3_dyn_context,
    'R4': r4_extend,
    'R5': r5_chunks,
    'R6': r6_std_consts,
    'R10': r10_fold,
    'R13': r13_byteorder,
    'R17': r17_iter_skip,
    'R18': r18_iter_seq,
}
