use vstd::prelude::*;
verus! {
pub struct Error;
pub enum Record {
    Data { offset: u16, value: Vec<u8> },
    EndOfFile,
    ExtendedSegmentAddress(u16),
    StartSegmentAddress { cs: u16, ip: u16 },
    ExtendedLinearAddress(u16),
    StartLinearAddress(u32),
}
pub open spec fn chunk_seq(s: Seq<u8>, r: int) -> Seq<u8> {
    s.subrange(16 * r, if 16 * r + 16 < s.len() { 16 * r + 16 } else { s.len() as int })
}
pub uninterp spec fn chunk_vec(s: Seq<u8>, r: int) -> Vec<u8>;
pub broadcast axiom fn chunk_vec_view(s: Seq<u8>, r: int) ensures (#[trigger] chunk_vec(s, r))@ == chunk_seq(s, r);

pub open spec fn shape_ok(seg: Seq<u8>, recs: Seq<Record>) -> bool {
    if seg.len() == 0 { recs.len() == 1 && recs[0] == Record::EndOfFile }
    else {
        let n = ((seg.len() + 15) / 16) as int;
        &&& recs.len() == n + 2
        &&& recs[0] == Record::ExtendedSegmentAddress(0)
        &&& recs[n + 1] == Record::EndOfFile
        &&& forall|r: int| 0 <= r < n ==> (#[trigger] recs[1 + r]) is Data && recs[1+r]->offset == (16 * r) as u16 && recs[1+r]->value@ == chunk_seq(seg, r)
    }
}
pub uninterp spec fn render(recs: Seq<Record>) -> Seq<char>;
pub mod ihex {
    use super::*;
    #[verifier::external_body]
    pub fn create_object_file_representation(records: &Vec<Record>) -> (r: Result<String, Error>)
        ensures r is Ok ==> r->Ok_0@ == render(records@)
    { unimplemented!() }
}
#[verifier::external_body]
pub fn subslice(s: &[u8], a: usize, b: usize) -> (r: &[u8])
    requires a <= b <= s@.len()
    ensures r@ == s@.subrange(a as int, b as int)
{ &s[a..b] }
pub assume_specification<T: Clone> [<[T]>::to_vec] (s: &[T]) -> (r: Vec<T>) ensures r@ == s@;
fn generate_hex_from_segment(segment: &[u8]) -> (res: Result<String, Error>)
    requires segment@.len() <= 65536,
    ensures res is Ok ==> exists|recs: Seq<Record>| #[trigger] render(recs) == res->Ok_0@ && shape_ok(segment@, recs),
{
    let mut records = vec![];
    if segment.len() > 0 {
        records.push(Record::ExtendedSegmentAddress(0x0));

        let mut i: usize = 0;
        while i * 16 < segment.len()
            invariant
                segment@.len() <= 65536,
                i * 16 <= segment@.len() + 15,
                records@.len() == 1 + i,
                records@[0] == Record::ExtendedSegmentAddress(0),
                forall|r: int| 0 <= r < i ==> (#[trigger] records@[1 + r]) is Data && records@[1+r]->offset == (16 * r) as u16 && records@[1+r]->value@ == chunk_seq(segment@, r),
            decreases segment@.len() + 16 - i * 16,
        {
            let chunk = subslice(segment, i * 16, if i * 16 + 16 < segment.len() { i * 16 + 16 } else { segment.len() });
            
            records.push(Record::Data {
                offset: i as u16 * 16,
                value: chunk.to_vec(),
            });
        
            i += 1;
        }
    }
    records.push(Record::EndOfFile);

    let hex = ihex::create_object_file_representation(&records)?;

    Ok(hex)
}


} // verus!
fn main() {}
