use vstd::prelude::*;
verus! {
pub struct Error;
#[verifier::external_body]
pub fn mk_err() -> Error { Error }

#[derive(Clone, Copy, PartialEq, Eq)]
pub enum SegmentType { Code, Data, Eeprom }
#[derive(Clone, Copy)]
pub struct CodePoint { pub line_num: usize, pub num: usize }
pub enum DataDefine { Db, Dw, Dd, Dq }
impl Clone for DataDefine {
    #[verifier::external_body]
    fn clone(&self) -> (r: Self) ensures r == *self { unimplemented!() }
}
pub enum Expr { Ident(String), Const(i64), Other }
pub enum Operand { E(Expr), S(String) }
impl Clone for Operand {
    #[verifier::external_body]
    fn clone(&self) -> (r: Self) ensures r == *self { unimplemented!() }
}
#[verifier::external_body]
pub struct Operation { _p: u8 }
#[verifier::external_body]
pub struct InstructionOps { _p: u8 }
pub struct Info { pub len: u32, pub op_code: u16 }
pub uninterp spec fn words(op: &Operation, avr8l: bool) -> int;
impl Operation {
    #[verifier::external_body]
    pub fn info(&self, c: &CommonContext) -> (r: Info)
        ensures r.len == words(self, c.avr8l()), 0 <= r.len <= 2
    { unimplemented!() }
}
pub enum Item {
    ReserveData(i64),
    Data(DataDefine, Vec<Operand>),
    Def(String, Expr),
    Undef(String),
    Set(String, Expr),
    Pragma(Vec<Operand>),
    Instruction(Operation, Vec<InstructionOps>),
    Label(String),
}
impl Clone for Item {
    #[verifier::external_body]
    fn clone(&self) -> (r: Self) ensures r == *self { unimplemented!() }
}
pub struct Segment { pub items: Vec<(CodePoint, Item)>, pub t: SegmentType, pub address: u32 }

#[verifier::external_body]
pub struct CommonContext { _p: u8 }
impl CommonContext {
    pub uninterp spec fn labels(&self) -> Map<Seq<char>, (SegmentType, u32)>;
    pub uninterp spec fn avr8l(&self) -> bool;
    #[verifier::external_body]
    pub fn set_label(&mut self, name: String, value: (SegmentType, u32)) -> (r: Option<(SegmentType, u32)>)
        ensures
            r is Some <==> old(self).labels().contains_key(name@),
            final(self).labels() == old(self).labels().insert(name@, value),
            final(self).avr8l() == old(self).avr8l(),
    { unimplemented!() }
}
pub uninterp spec fn alen(xs: Seq<Operand>) -> int;
pub trait GetData { fn actual_len(&self) -> usize; }
impl GetData for Vec<Operand> {
    #[verifier::external_body]
    fn actual_len(&self) -> (r: usize) ensures r == alen(self@), { unimplemented!() }
}
pub mod ax {
 use super::*;
pub broadcast axiom fn alen_push(xs: Seq<Operand>, x: Operand)
    ensures #[trigger] alen(xs.push(x)) == alen(xs) + (match x { Operand::E(_) => 1int, Operand::S(s) => s@.len() as int });
pub broadcast axiom fn alen_nonneg(xs: Seq<Operand>) ensures #[trigger] alen(xs) >= 0;

}
pub open spec fn item_size(item: Item, t: SegmentType, avr8l: bool) -> int {
    match item {
        Item::Instruction(op, _) => if t == SegmentType::Code { words(&op, avr8l) } else { 0 },
        Item::Data(DataDefine::Db, xs) => match t { SegmentType::Code => (alen(xs@) + 1) / 2, SegmentType::Eeprom => alen(xs@), _ => 0 },
        Item::Data(DataDefine::Dw, xs) => match t { SegmentType::Code => (xs@.len() as int) * 1, SegmentType::Eeprom => (xs@.len() as int) * 2, _ => 0 },
        Item::Data(DataDefine::Dd, xs) => match t { SegmentType::Code => (xs@.len() as int) * 2, SegmentType::Eeprom => (xs@.len() as int) * 4, _ => 0 },
        Item::Data(DataDefine::Dq, xs) => match t { SegmentType::Code => (xs@.len() as int) * 4, SegmentType::Eeprom => (xs@.len() as int) * 8, _ => 0 },
        Item::ReserveData(n) => if t == SegmentType::Code { 0 } else { n as int },
        _ => 0,
    }
}
pub open spec fn total(s: Seq<(CodePoint, Item)>, t: SegmentType, avr8l: bool, n: int) -> int
    decreases n
{
    if n <= 0 { 0 } else { total(s, t, avr8l, n - 1) + item_size(s[n - 1].1, t, avr8l) }
}
pub open spec fn fits(s: Seq<(CodePoint, Item)>, t: SegmentType, avr8l: bool) -> bool {
    &&& forall|n: int| 0 <= n <= s.len() ==> 0 <= #[trigger] total(s, t, avr8l, n) < 0x4000_0000
    &&& forall|j: int| 0 <= j < s.len() ==> 0 <= #[trigger] item_size(s[j].1, t, avr8l)
    &&& forall|j: int| 0 <= j < s.len() ==> (match (#[trigger] s[j]).1 { Item::Data(_, xs) => alen(xs@) < 0x4000_0000 && xs@.len() < 0x1000_0000, Item::ReserveData(n) => 0 <= n < 0x4000_0000, _ => true })
}
pub open spec fn small(s: Seq<(CodePoint, Item)>, t: SegmentType, avr8l: bool) -> bool {
    &&& s.len() < 0x4000
    &&& forall|j: int| 0 <= j < s.len() ==> 0 <= #[trigger] item_size(s[j].1, t, avr8l) <= 0x10000
    &&& forall|j: int| 0 <= j < s.len() ==> (match (#[trigger] s[j]).1 { Item::Data(_, xs) => alen(xs@) < 0x20000 && xs@.len() < 0x4000, Item::ReserveData(n) => 0 <= n < 0x10000, _ => true })
}
pub mod code {
 use super::*;
 broadcast use super::ax::alen_push, super::ax::alen_nonneg;
fn pass_1_internal(
    segment: &Segment,
    address: u32,
    common_context: &mut CommonContext,
) -> (res: Result<(u32, u32, Vec<(CodePoint, Item)>), Error>)
    requires
        fits(segment.items@, segment.t, old(common_context).avr8l()),
        address < 0x4000_0000, segment.address < 0x4000_0000,
    ensures
        final(common_context).avr8l() == old(common_context).avr8l(),
        (segment.address != 0 && segment.address < address) ==> res is Err,
        res is Ok ==> ({
            let (end, start, out) = res->Ok_0;
            let avr8l = old(common_context).avr8l();
            &&& start == (if segment.address == 0 { address } else { segment.address })
            &&& end == start + total(segment.items@, segment.t, avr8l, segment.items@.len() as int)
            &&& forall|j: int| 0 <= j < segment.items@.len() ==> (#[trigger] segment.items@[j]).1 is Label ==>
                    final(common_context).labels().contains_key(segment.items@[j].1->Label_0@)
                    && final(common_context).labels()[segment.items@[j].1->Label_0@] == (segment.t, (start + total(segment.items@, segment.t, avr8l, j)) as u32)
        }),
{
    let current_offset = if segment.address == 0 {
        address
    } else {
        if segment.address < address {
            return Err(mk_err());
        }
        segment.address
    };

    let mut out_items = vec![];
    let mut cur_address = current_offset;

    for (line, item) in it: &segment.items
        invariant
            common_context.avr8l() == old(common_context).avr8l(),
            fits(segment.items@, segment.t, common_context.avr8l()),
            current_offset < 0x4000_0000,
            current_offset == (if segment.address == 0 { address } else { segment.address }),
            cur_address == current_offset + total(segment.items@, segment.t, common_context.avr8l(), it.index@ as int),
            forall|j: int| 0 <= j < it.index@ ==> (#[trigger] segment.items@[j]).1 is Label ==>
                    common_context.labels().contains_key(segment.items@[j].1->Label_0@)
                    && common_context.labels()[segment.items@[j].1->Label_0@] == (segment.t, (current_offset + total(segment.items@, segment.t, common_context.avr8l(), j)) as u32),
    {
        match item {
            Item::Label(name) => {
                if let Some(_) = common_context.set_label(name.clone(), (segment.t, cur_address)) {
                    // TODO: add display current string of mistake and previous location
                    return Err(mk_err());
                }
            }
            Item::Instruction(op, _) => match segment.t {
                SegmentType::Code => {
                    cur_address += op.info(common_context).len;
                    out_items.push((*line, item.clone()));
                }
                _ => return Err(mk_err()),
            },
            Item::Set(_, _) | Item::Def(_, _) | Item::Undef(_) => {
                out_items.push((*line, item.clone()));
            }
            Item::Data(item_type, items) => match item_type {
                DataDefine::Db => {
                    let mut items = items.clone();

                    cur_address += match segment.t {
                        SegmentType::Code => {
                            (if items.actual_len() % 2 == 1 {
                                items.push(Operand::E(Expr::Const(0x0)));
                                items.actual_len()
                            } else {
                                items.actual_len()
                            }) as u32
                                / 2
                        }
                        SegmentType::Eeprom => items.actual_len() as u32,
                        _ => return Err(mk_err()),
                    };

                    out_items.push((*line, Item::Data(DataDefine::Db, items)));
                }
                DataDefine::Dw | DataDefine::Dd | DataDefine::Dq => {
                    let item_size = match item_type {
                        DataDefine::Dw => 2,
                        DataDefine::Dd => 4,
                        DataDefine::Dq => 8,
                        _ => 0,
                    };
                    cur_address += match segment.t {
                        SegmentType::Code => items.len() as u32 * (item_size / 2),
                        SegmentType::Eeprom => items.len() as u32 * item_size,
                        _ => return Err(mk_err()),
                    };

                    out_items.push((*line, item.clone()));
                }
            },
            Item::ReserveData(size) => match segment.t {
                SegmentType::Data | SegmentType::Eeprom => {
                    cur_address += *size as u32;
                    if segment.t == SegmentType::Eeprom {
                        out_items.push((*line, item.clone()));
                    }
                }
                _ => return Err(mk_err()),
            },
            Item::Pragma(_) => {}
        }
    }

    Ok((cur_address, current_offset, out_items))
}


}
} // verus!
fn main() {}
