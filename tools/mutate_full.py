#!/usr/bin/env python3
"""Audit of the bounded witness families: first-order mutants of the glue functions that NO unit extracts (stubs in the units),
applied to /repo one at a time and run against the full quick checks that are supposed to notice them.  /repo is restored after
every mutant (git checkout -- .) and must be clean at the start.  Not a registered check.

    tools/mutate_full.py [group ...]
"""
import json
import os
import re
import subprocess
import sys
import time

V = os.path.dirname(os.path.dirname(os.path.abspath(__file__)))
sys.path.insert(0, V)
sys.path.insert(0, os.path.join(V, 'tools'))
from vfw.rsitems import Source  # noqa: E402
import mutate  # noqa: E402

# group -> ([(file, fn, impl)], [checks])
GROUPS = {
    'macro': ([('src/builder/pass0.rs', 'macro_expand', None)], ['C09', 'C02']),
    'results': ([('src/parser.rs', 'as_parse_result', 'ParseContext'), ('src/builder/pass0.rs', 'as_pass0_result', 'Pass0Context'),
                 ('src/parser.rs', 'add_segment', 'ParseContext'), ('src/parser.rs', 'last_segment', 'ParseContext'),
                 ('src/builder/pass0.rs', 'add_segment', 'Pass0Context'), ('src/builder/pass0.rs', 'last_segment', 'Pass0Context')], ['C02', 'C09']),
    'parse': ([('src/parser.rs', 'parse', None), ('src/parser.rs', 'parse_str', None), ('src/parser.rs', 'parse_file', None)], ['C15', 'C11', 'C02']),
    'build': ([('src/builder/mod.rs', 'build_str', None), ('src/builder/mod.rs', 'build_file', None)], ['C02', 'C11', 'C12']),
    'ctx': ([('src/context.rs', 'get_device', 'Context for CommonContext'), ('src/context.rs', 'new', 'CommonContext'),
             ('src/context.rs', 'set_equ', 'Context for CommonContext'), ('src/context.rs', 'set_define', 'Context for CommonContext'),
             ('src/context.rs', 'get_special', 'Context for CommonContext'), ('src/context.rs', 'set_special', 'Context for CommonContext')], ['C10', 'C12', 'C08']),
    'display': ([('src/expr.rs', 'fmt', r'fmt::Display for BinaryExpr'), ('src/expr.rs', 'fmt', r'fmt::Display for UnaryExpr'), ('src/expr.rs', 'fmt', r'fmt::Display for Expr')], ['C09']),
}


def sh(cmd, **kw):
    return subprocess.run(cmd, shell=True, capture_output=True, text=True, **kw)


def main():
    groups = sys.argv[1:] or list(GROUPS)
    if sh('git -C /repo diff --quiet').returncode != 0:
        sys.exit('/repo is dirty')
    recs = []
    for gname in groups:
        targets, checks = GROUPS[gname]
        for relfile, fn, impl in targets:
            src = Source(os.path.join('/repo', relfile))
            within = None
            if impl:
                s, b, e = src.find_impl(re.escape(impl))
                within = (b, e)
            s, b, e = src.find_fn(fn, within)
            for p, old, new, desc in list(mutate.mutants_of(src, b, e)):
                f = os.path.join('/repo', relfile)
                t = open(f).read()
                assert t[p:p + len(old)] == old
                open(f, 'w').write(t[:p] + new + t[p + len(old):])
                verdict, by = 'survived', ''
                t0 = time.time()
                try:
                    b0 = sh('cd /repo && cargo build --offline --lib 2>&1 | tail -3')
                    if 'error' in b0.stdout:
                        verdict = 'does not compile'
                    else:
                        for c in checks:
                            r = sh('./check %s quick' % c, cwd=V, timeout=1800)
                            if r.returncode == 1:
                                verdict, by = 'killed', c + ': ' + (re.findall(r'failed obligation: (\S+)', r.stdout) or ['?'])[0]
                                break
                            if r.returncode == 2 and verdict == 'survived':
                                verdict, by = 'undecided', c
                finally:
                    sh('git -C /repo checkout -- .')
                line = src.line_of(p)
                rec = dict(group=gname, file=relfile, fn=fn, line=line, mutant=desc, verdict=verdict, by=by, secs=int(time.time() - t0),
                           code=src.text.split('\n')[line - 1].strip()[:110])
                recs.append(rec)
                print(json.dumps(rec), flush=True)
    from collections import Counter
    print('SUMMARY', json.dumps({'%s/%s' % k: v for k, v in sorted(Counter((r['group'], r['verdict']) for r in recs).items())}))


if __name__ == '__main__':
    main()
