#!/usr/bin/env python3
"""Re-run every seeded change of /verif/seeded against the current /repo HEAD WITHOUT touching /repo: each change is applied to a scratch
copy of the repository under /tmp and the property's quick check runs with VERIF_REPO / VERIF_WORK pointing there (own Kani crates, own
replay build, own evidence).  Several run in parallel.  Records `final_run` in each meta.json and regenerates seeded/README.md's table.

    tools/seedall_iso.py [-j N] [id ...]
"""
import glob
import json
import os
import re
import shutil
import subprocess
import sys
import time
from concurrent.futures import ThreadPoolExecutor

V = os.path.dirname(os.path.dirname(os.path.abspath(__file__)))
args = sys.argv[1:]
jobs = 4
if args and args[0] == '-j':
    jobs = int(args[1])
    args = args[2:]
only = args
head = subprocess.run(['git', '-C', '/repo', 'rev-parse', '--short', 'HEAD'], capture_output=True, text=True).stdout.strip()
if subprocess.run(['git', '-C', '/repo', 'diff', '--quiet']).returncode != 0:
    sys.exit('/repo is dirty')
BASE = '/tmp/vfw-seedall'
shutil.rmtree(BASE, ignore_errors=True)
os.makedirs(BASE)
# a warm Kani verdict cache helps: harnesses whose slice text is unchanged by the seeded change are not re-run
WARM = os.path.join(V, '.work', 'kcache')


def one(d):
    sid = os.path.basename(d)
    m = json.load(open(os.path.join(d, 'meta.json')))
    prop = m['property']
    root = os.path.join(BASE, sid)
    repo = os.path.join(root, 'repo')
    work = os.path.join(root, 'work')
    os.makedirs(work)
    subprocess.run(['rsync', '-a', '--exclude', 'target', '--exclude', '.git', '/repo/', repo + '/'], check=True)
    ap = subprocess.run(['patch', '-p1', '-s', '-i', os.path.join(d, 'patch.diff')], cwd=repo, capture_output=True, text=True)
    if ap.returncode != 0:
        m['final_run'] = dict(head=head, applied=False, note=(ap.stdout + ap.stderr)[-300:])
    else:
        if os.path.isdir(WARM):
            shutil.copytree(WARM, os.path.join(work, 'kcache'))
        t0 = time.time()
        env = dict(os.environ, VERIF_REPO=repo, VERIF_WORK=work)
        try:
            p = subprocess.run(['./check', prop, 'quick'], cwd=V, env=env, capture_output=True, text=True, timeout=5400)
            out, rc = p.stdout, p.returncode
        except subprocess.TimeoutExpired:
            out, rc = 'UNDECIDED timeout of the seed runner', 2
        m['final_run'] = dict(head=head, applied=True, exit=rc, seconds=int(time.time() - t0),
                              failed_obligations=re.findall(r'failed obligation: (\S+)', out)[:8],
                              violation_lines=[re.sub(r'replay=\S*/replays/', 'replay=replays/', l) for l in out.split('\n') if l.startswith('VIOLATION')][:8],
                              undecided=[l[:200] for l in out.split('\n') if l.startswith('UNDECIDED')][:3])
        if 'not_a_violation_of_the_property_as_stated' not in m:
            m['detected'] = (rc == 1)
    json.dump(m, open(os.path.join(d, 'meta.json'), 'w'), indent=1)
    shutil.rmtree(root, ignore_errors=True)
    print(sid, m['final_run'].get('exit'), m['final_run'].get('seconds'), m['final_run'].get('failed_obligations', [])[:2], flush=True)


dirs = [d for d in sorted(glob.glob(os.path.join(V, 'seeded', 'C*_*'))) if not only or os.path.basename(d) in only]
with ThreadPoolExecutor(jobs) as ex:
    list(ex.map(one, dirs))
shutil.rmtree(BASE, ignore_errors=True)
# README table
rows = []
for f in sorted(glob.glob(os.path.join(V, 'seeded', 'C*_*', 'meta.json'))):
    m = json.load(open(f))
    runs = m.get('check_runs', [])
    first = runs[0]['exit'] if runs else None
    fr = m.get('final_run', {})
    what = m['what_and_what_it_needs'].split('\n')[0][:120].replace('|', '/')
    inp = 'concrete input' if any('no-failing-input-found' not in l for l in fr.get('violation_lines', [])) else 'no-failing-input-found'
    if not fr and runs:
        # never re-run since its import: the first run is the last run
        fr = dict(exit=runs[0]['exit'], failed_obligations=runs[0].get('failed_obligations', []), head='import', violation_lines=['x'] if runs[0].get('violation_lines') else [])
    now = {1: 'caught', 0: 'MISSED', 2: 'undecided'}.get(fr.get('exit'), 'not run')
    if fr.get('head'):
        now += ' (@%s)' % fr['head']
    obl = ', '.join(sorted(set(o.split('#')[0] for o in fr.get('failed_obligations', [])))[:3])
    if 'not_a_violation_of_the_property_as_stated' in m and fr.get('exit') == 0:
        now = 'not reported (deliberately: see meta.json)'
    rows.append('| %s | %s | %s | %s | %s | %s |' % (m['id'], what, {1: 'caught', 0: 'MISSED', 2: 'undecided'}.get(first, '-'), now, obl, inp if fr.get('exit') == 1 else ''))
p = os.path.join(V, 'seeded', 'README.md')
s = open(p).read()
a = s.index('| id |')
b = s.index('\nStrengthenings triggered')
hdr = '| id | change (first line of the author\'s note) | first run | last run (@ commit of /repo it ran against; current HEAD %s) | failed obligations (unit/function/kind) | replay |\n|---|---|---|---|---|---|\n' % head
open(p, 'w').write(s[:a] + hdr + '\n'.join(rows) + '\n' + s[b:])
