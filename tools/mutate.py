#!/usr/bin/env python3
"""Contract-strength audit: first-order mutants of the functions under contract, run against the Verus units that extract them.

    tools/mutate.py [unit ...]          (default: every target below)

For every mutant (one token changed inside one function under contract: relational / arithmetic / boolean operator swapped, an
integer literal moved by one, a compound assignment inverted) a scratch copy of /repo's src tree is written under /tmp, the units
that extract the function are generated from it and run by Verus.  Verdicts:
    killed     some obligation of a unit fails (what a check would report as VIOLATION)
    undecided  the unit is rejected / loses an anchor (what a check would report as UNDECIDED)
    survived   every unit still verifies: the contracts do not pin this token down -- inspect (equivalent mutant? weak clause?)
Nothing here is part of a registered check; it is the tool that was used to strengthen the contracts (DESIGN.md section 16).
/repo itself is never touched.
"""
import json
import os
import re
import shutil
import subprocess
import sys
import tempfile
from concurrent.futures import ThreadPoolExecutor

V = os.path.dirname(os.path.dirname(os.path.abspath(__file__)))
sys.path.insert(0, V)
from vfw.rsitems import Source, mask  # noqa: E402

# unit -> [(file, function, impl-regex or None)]
TARGETS = {
    'hex': [('src/writer.rs', 'generate_hex_from_segment', None), ('src/writer.rs', 'generate_hex', None), ('src/writer.rs', 'write_code_hex', None),
            ('src/writer.rs', 'write_eeprom_hex', None)],
    'expr': [('src/expr.rs', 'run_nested', 'Expr'), ('src/expr.rs', 'run', 'Expr'), ('src/expr.rs', 'get_byte', 'Expr'), ('src/expr.rs', 'get_bit_index', 'Expr'),
             ('src/expr.rs', 'get_words', 'Expr'), ('src/expr.rs', 'get_double_words', 'Expr'), ('src/expr.rs', 'get_quad_words', 'Expr')],
    'pass1': [('src/builder/pass1.rs', 'next_address', None), ('src/builder/pass1.rs', 'pass_1_internal', None), ('src/builder/pass1.rs', 'build_pass_1', None)],
    'pass2': [('src/builder/pass2.rs', 'pass_2_internal', None), ('src/builder/pass2.rs', 'build_pass_2', None)],
    'build': [('src/builder/mod.rs', 'build_from_parsed', None)],
    'pass0': [('src/builder/pass0.rs', 'pass0_internal', None), ('src/builder/pass0.rs', 'build_pass_0', None), ('src/builder/pass0.rs', 'macro_expand', None),
              ('src/builder/pass0.rs', 'as_pass0_result', 'Pass0Context'), ('src/builder/pass0.rs', 'add_segment', 'Pass0Context'),
              ('src/builder/pass0.rs', 'push_to_last', 'Pass0Context')],
    'mexp': [('src/parser.rs', 'as_parse_result', 'ParseContext'), ('src/parser.rs', 'new', 'ParseContext'), ('src/parser.rs', 'add_segment', 'ParseContext'),
             ('src/parser.rs', 'new', 'Segment'), ('src/parser.rs', 'is_empty', 'Segment'), ('src/parser.rs', 'parse_str', None), ('src/parser.rs', 'parse_file', None)],
    'cond': [('src/parser.rs', 'skip', None), ('src/parser.rs', 'parse_iter', None)],
    'inc': [('src/parser.rs', 'parse_file_internal', None)],
    'dir': [('src/directive.rs', 'parse', 'Directive')],
    'data': [('src/directive.rs', 'get_bytes', r'GetData for Vec<Operand>'), ('src/directive.rs', 'get_words', r'GetData for Vec<Operand>'),
             ('src/directive.rs', 'actual_len', r'GetData for Vec<Operand>'), ('src/directive.rs', 'len', 'Operand')],
    'encv': [('src/instruction/mod.rs', 'process', None), ('src/instruction/operation.rs', 'info', 'Operation')],
    'ctxu': [('src/context.rs', 'get_expr', None), ('src/context.rs', 'exist', None), ('src/context.rs', 'set_def', r'Context for CommonContext'),
             ('src/context.rs', 'get_label', r'Context for CommonContext'), ('src/context.rs', 'set_label', r'Context for CommonContext')],
}
# which other units see the same function (a mutant is run against all of them)
ALSO = {'dir': ['inc'], 'inc': [], 'encv': []}

SWAPS = [(r'<=', '<'), (r'>=', '>'), (r'(?<![<\-=!>])<(?![<=])', '<='), (r'(?<![>\-=])>(?![>=])', '>='), (r'==', '!='), (r'!=', '=='),
         (r'&&', '||'), (r'\|\|', '&&'), (r'(?<![+\w)\]] )\+(?![+=])', '-'), (r' - ', ' + '), (r'<<', '>>'), (r'>>', '<<'), (r'\+=', '-='), (r'-=', '+='),
         (r' \* ', ' / '), (r' / ', ' * '), (r' % ', ' / '), (r' & ', ' | '), (r' \| ', ' & ')]


def mutants_of(src, start, end):
    """yield (pos, old, new, description) for the function text src.text[start:end]"""
    text = src.text
    msk = src.msk
    # regions inside bail!(..) / format!(..) / attribute lines are message text or metadata: skip
    skip = []
    for m in re.finditer(r'(bail|format|println|write|writeln|assert|assert_eq)!\s*\(', msk[start:end]):
        op = start + m.end() - 1
        depth = 0
        for k in range(op, end):
            if msk[k] == '(':
                depth += 1
            elif msk[k] == ')':
                depth -= 1
                if depth == 0:
                    skip.append((start + m.start(), k + 1))
                    break

    def skipped(p):
        return any(a <= p < b for a, b in skip)
    seen = set()
    for pat, rep in SWAPS:
        for m in re.finditer(pat, msk[start:end]):
            p = start + m.start()
            if skipped(p):
                continue
            old = text[p:p + len(m.group(0))]
            # generics / arrows / references are not operators
            ctx = msk[max(0, p - 2):p + len(old) + 2]
            if '->' in ctx or '=>' in ctx or '::<' in msk[max(0, p - 3):p + 1]:
                continue
            if old in ('<', '>') and re.search(r'[A-Za-z_>]$', msk[max(0, p - 1):p]) and re.match(r'[<>]?[A-Z(&\']', msk[p + 1:p + 3]):
                continue      # Vec<..>, Option<&..>
            key = (p, rep)
            if key in seen:
                continue
            seen.add(key)
            yield p, old, rep, '%s -> %s' % (old.strip(), rep.strip())
    # enum variant written for a sibling
    ENUMS = {'SegmentType': ['Code', 'Data', 'Eeprom'], 'DataDefine': ['Db', 'Dw', 'Dd', 'Dq'], 'NextItem': ['NewLine', 'EndIf', 'EndIfAll', 'EndMacro', 'EndFile']}
    for en, vs in ENUMS.items():
        for m in re.finditer(r'%s::(%s)\b' % (en, '|'.join(vs)), msk[start:end]):
            p = start + m.start(1)
            if skipped(p):
                continue
            old = m.group(1)
            new = vs[(vs.index(old) + 1) % len(vs)]
            yield p, old, new, '%s::%s -> %s::%s' % (en, old, en, new)
    # a negation dropped: `!x` -> `x`
    for m in re.finditer(r'(?<![=!<>\w)\]])!(?=[A-Za-z_(*])', msk[start:end]):
        p = start + m.start()
        if skipped(p) or re.match(r'\w+!', text[max(start, p - 12):p + 1].split()[-1] if text[max(start, p - 12):p + 1].split() else ''):
            continue
        yield p, '!', '', 'negation dropped: %s' % text[p:p + 40].split('\n')[0]
    # a filtering / skipping adapter line of an iterator chain deleted
    for m in re.finditer(r'(?m)^[ \t]*\.(filter|skip|take|rev|skip_while|take_while)\(', msk[start:end]):
        p = start + m.start()
        op = start + m.end() - 1
        depth, k = 0, op
        while k < end:
            if msk[k] == '(':
                depth += 1
            elif msk[k] == ')':
                depth -= 1
                if depth == 0:
                    break
            k += 1
        stmt = text[p:k + 1]
        yield p, stmt, '', 'adapter deleted: %s' % ' '.join(stmt.split())[:70]
    # `if COND {` negated
    for m in re.finditer(r'(?<![A-Za-z0-9_])if (?!let\b)', msk[start:end]):
        p = start + m.end()
        if skipped(p):
            continue
        depth, k = 0, p
        while k < end:
            ch = msk[k]
            if ch in '([':
                depth += 1
            elif ch in ')]':
                depth -= 1
            elif ch == '{' and depth == 0:
                break
            k += 1
        cond = text[p:k].rstrip()
        if '\n' in cond or not cond:
            continue
        yield p, text[p:p + len(cond)], '!(%s)' % cond, 'condition negated: if %s' % cond[:60]
    # a simple statement deleted (an expression statement on one line: a call or an assignment, not a `let`, not a `return`)
    for m in re.finditer(r'(?m)^([ \t]+)(?!let\b|return\b|break\b|continue\b|//|\}|\{)([A-Za-z_*][^\n;{}]*;)[ \t]*$', msk[start:end]):
        p = start + m.start(2)
        if skipped(p):
            continue
        stmt = text[p:p + len(m.group(2))]
        if stmt.endswith('?;') and '=' not in stmt:
            continue      # a fallible call whose only effect may be the error: keep (covered by the operator mutants of the callee)
        yield p, stmt, '/* deleted */', 'statement deleted: %s' % stmt[:70]
    for m in re.finditer(r'(?<![\w.])(0x[0-9a-fA-F_]+|\d[\d_]*)(?![\w.])', msk[start:end]):
        p = start + m.start()
        if skipped(p):
            continue
        lit = m.group(1)
        try:
            v = int(lit.replace('_', ''), 0)
        except ValueError:
            continue
        new = ('0x%x' % (v + 1)) if lit.startswith('0x') else str(v + 1)
        yield p, lit, new, 'literal %s -> %s' % (lit, new)
        if v > 0:
            new2 = ('0x%x' % (v - 1)) if lit.startswith('0x') else str(v - 1)
            yield p, lit, new2, 'literal %s -> %s' % (lit, new2)


def run_unit(unit, repo, work):
    env = dict(os.environ, VERIF_REPO=repo, VERIF_WORK=work)
    code = ("import sys; sys.path.insert(0, %r)\n"
            "from vfw import core\n"
            "u = core.run_verus_unit(%r)\n"
            "import json; print('@@' + json.dumps(dict(fail=[f.oid for f in u.failures], und=u.undecided[:2], verified=u.verified)))\n") % (V, unit)
    try:
        p = subprocess.run([sys.executable, '-c', code], env=env, capture_output=True, text=True, timeout=400)
    except subprocess.TimeoutExpired:
        return dict(fail=[], und=['timeout'], verified=0)
    for l in p.stdout.split('\n'):
        if l.startswith('@@'):
            return json.loads(l[2:])
    return dict(fail=[], und=['runner crashed: ' + p.stderr[-300:]], verified=0)


# Kani slices: slice -> ([(file, function, impl)], harness list expression)
KANI_TARGETS = {
    'dev': ([('src/device.rs', 'check_operation', 'Device'), ('src/device.rs', 'check_operands', 'Device'), ('src/device.rs', 'allow', 'Device'),
             ('src/device.rs', 'is_avr8l', 'Device'), ('src/device.rs', 'new', 'Device')], "__import__('device_feat').harness_names('quick')"),
    'conv': ([('src/expr.rs', 'get_byte', 'Expr'), ('src/expr.rs', 'get_bit_index', 'Expr'), ('src/expr.rs', 'get_words', 'Expr'),
              ('src/expr.rs', 'get_double_words', 'Expr'), ('src/expr.rs', 'get_quad_words', 'Expr')], "__import__('expr_gen').conv_harness_names('quick')"),
}


def run_kani(slice_name, hexpr, repo, work):
    env = dict(os.environ, VERIF_REPO=repo, VERIF_WORK=work, VERIF_NO_CACHE='1')
    code = ("import sys; sys.path.insert(0, %r); sys.path.insert(0, %r)\n"
            "from vfw import kani\n"
            "kr = kani.run_group(%r, %s, 'quick', 0, jobs=4)\n"
            "import json; print('@@' + json.dumps(dict(fail=[f.oid for f in kr.failures], und=kr.undecided[:2], verified=len(kr.harnesses))))\n") % (V, os.path.join(V, 'spec'), slice_name, hexpr)
    try:
        p = subprocess.run([sys.executable, '-c', code], env=env, capture_output=True, text=True, timeout=900)
    except subprocess.TimeoutExpired:
        return dict(fail=[], und=['timeout'], verified=0)
    for l in p.stdout.split('\n'):
        if l.startswith('@@'):
            return json.loads(l[2:])
    return dict(fail=[], und=['runner crashed: ' + p.stderr[-300:]], verified=0)


def main():
    units = sys.argv[1:] or list(TARGETS)
    base = tempfile.mkdtemp(prefix='vfwmut-', dir='/tmp')
    jobs = []
    for unit in units:
        for relfile, fn, impl in (TARGETS[unit] if unit in TARGETS else KANI_TARGETS[unit][0]):
            src = Source(os.path.join('/repo', relfile))
            within = None
            if impl:
                s, b, e = src.find_impl(re.escape(impl))
                within = (b, e)
            s, b, e = src.find_fn(fn, within)
            for p, old, new, desc in mutants_of(src, b, e):
                line = src.line_of(p)
                jobs.append((unit, relfile, fn, p, old, new, desc, line))
    print('%d mutants' % len(jobs), flush=True)

    def one(idx_job):
        idx, (unit, relfile, fn, p, old, new, desc, line) = idx_job
        d = os.path.join(base, 'm%d' % idx)
        repo = os.path.join(d, 'repo')
        os.makedirs(repo)
        # src and includes are what the extractor reads
        shutil.copytree('/repo/src', os.path.join(repo, 'src'))
        os.symlink('/repo/includes', os.path.join(repo, 'includes'))
        f = os.path.join(repo, relfile)
        t = open(f).read()
        assert t[p:p + len(old)] == old
        open(f, 'w').write(t[:p] + new + t[p + len(old):])
        verdict, detail = 'survived', []
        for u in [unit] + ALSO.get(unit, []):
            r = run_kani(u, KANI_TARGETS[u][1], repo, os.path.join(d, 'work')) if u in KANI_TARGETS else run_unit(u, repo, os.path.join(d, 'work'))
            if r['fail']:
                verdict = 'killed'
                detail = r['fail'][:2]
                break
            if r['und']:
                verdict = 'undecided'
                detail = [x[:160] for x in r['und'][:1]]
        shutil.rmtree(d, ignore_errors=True)
        ctxline = open(os.path.join('/repo', relfile)).read().split('\n')[line - 1].strip()[:110]
        rec = dict(unit=unit, file=relfile, fn=fn, line=line, mutant=desc, verdict=verdict, detail=detail, code=ctxline)
        print(json.dumps(rec), flush=True)
        return rec
    with ThreadPoolExecutor(4 if any(u in KANI_TARGETS for u in units) else 12) as ex:
        recs = list(ex.map(one, enumerate(jobs)))
    shutil.rmtree(base, ignore_errors=True)
    from collections import Counter
    c = Counter((r['unit'], r['verdict']) for r in recs)
    print('SUMMARY', json.dumps({'%s/%s' % k: v for k, v in sorted(c.items())}))


if __name__ == '__main__':
    main()
