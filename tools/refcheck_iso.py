#!/usr/bin/env python3
"""Run every quick check on behaviour-preserving refactorings (seeded/refactorings/<id>/patch.diff) WITHOUT touching /repo: each is applied
to a scratch copy under /tmp and the checks run with VERIF_REPO / VERIF_WORK pointing there.  Expected exit codes: 0 or 2, never 1.

    tools/refcheck_iso.py [-j N] [id ...]      -> one line per refactoring, results also in seeded/refactorings/results.json
"""
import glob
import json
import os
import shutil
import subprocess
import sys
from concurrent.futures import ThreadPoolExecutor

V = os.path.dirname(os.path.dirname(os.path.abspath(__file__)))
args = sys.argv[1:]
jobs = 4
if args and args[0] == '-j':
    jobs = int(args[1])
    args = args[2:]
PROPS = ['C01', 'C02', 'C03', 'C04', 'C05', 'C06', 'C07', 'C08', 'C09', 'C10', 'C11', 'C12', 'C13', 'C15', 'C16']
BASE = '/tmp/vfw-refcheck'
shutil.rmtree(BASE, ignore_errors=True)
os.makedirs(BASE)
WARM = os.path.join(V, '.work', 'kcache')


def one(d):
    rid = os.path.basename(d)
    root = os.path.join(BASE, rid)
    repo, work = os.path.join(root, 'repo'), os.path.join(root, 'work')
    os.makedirs(work)
    subprocess.run(['rsync', '-a', '--exclude', 'target', '--exclude', '.git', '/repo/', repo + '/'], check=True)
    ap = subprocess.run(['patch', '-p1', '-s', '-i', os.path.join(d, 'patch.diff')], cwd=repo, capture_output=True, text=True)
    res = dict(id=rid, applied=ap.returncode == 0, codes={}, alarms={}, undecided={})
    if ap.returncode == 0:
        if os.path.isdir(WARM):
            shutil.copytree(WARM, os.path.join(work, 'kcache'))
        env = dict(os.environ, VERIF_REPO=repo, VERIF_WORK=work)
        for p in PROPS:
            try:
                r = subprocess.run(['./check', p, 'quick'], cwd=V, env=env, capture_output=True, text=True, timeout=5400)
                rc, out = r.returncode, r.stdout
            except subprocess.TimeoutExpired:
                rc, out = 2, 'UNDECIDED timeout'
            res['codes'][p] = rc
            if rc == 1:
                res['alarms'][p] = [l[:300] for l in out.split('\n') if l.startswith('failed obligation')][:4]
            if rc == 2:
                res['undecided'][p] = ([l[:220] for l in out.split('\n') if l.startswith('UNDECIDED')] or ['?'])[0]
    shutil.rmtree(root, ignore_errors=True)
    print(rid, 'applied' if res['applied'] else 'APPLY FAILED', ' '.join('%s=%s' % kv for kv in res['codes'].items()), flush=True)
    return res


dirs = [d for d in sorted(glob.glob(os.path.join(V, 'seeded', 'refactorings', 'C*_r*'))) if not args or os.path.basename(d) in args]
with ThreadPoolExecutor(jobs) as ex:
    results = list(ex.map(one, dirs))
shutil.rmtree(BASE, ignore_errors=True)
p = os.path.join(V, 'seeded', 'refactorings', 'results.json')
old = json.load(open(p)) if os.path.exists(p) else {}
for r in results:
    old[r['id']] = r
json.dump(old, open(p, 'w'), indent=1, sort_keys=True)
print('alarms:', {r['id']: r['alarms'] for r in results if r['alarms']})
