#!/usr/bin/env python3
"""Like seedimport.py, but the first run of the check happens on a scratch copy of /repo (VERIF_REPO / VERIF_WORK): /repo is never touched,
so several imports can run at the same time.   usage: seedimport_iso.py <worktree> <n> <property> <new-id>"""
import json, os, re, shutil, subprocess, sys, time
V = os.path.dirname(os.path.dirname(os.path.abspath(__file__)))
wt, n, prop, sid = sys.argv[1:5]
src = os.path.join(wt, 'SEED')
val = [l for l in open(os.path.join(src, 'validate.txt')).read().split('\n') if l.startswith('%s/%s:' % (os.path.basename(wt), n))]
assert val and 'suite_with_change=[test result: ok. 67 passed' in val[0] and 'demo_with_change=[test result: FAILED' in val[0] and 'clean_demo=[test result: ok' in val[0], val
d = os.path.join(V, 'seeded', sid)
os.makedirs(d, exist_ok=True)
shutil.copy(os.path.join(src, 'change%s.diff' % n), os.path.join(d, 'patch.diff'))
shutil.copy(os.path.join(src, 'demo%s.rs' % n), os.path.join(d, 'demo.rs'))
root = '/tmp/vfw-import-' + sid
shutil.rmtree(root, ignore_errors=True)
repo, work = os.path.join(root, 'repo'), os.path.join(root, 'work')
os.makedirs(work)
subprocess.run(['rsync', '-a', '--exclude', 'target', '--exclude', '.git', '/repo/', repo + '/'], check=True)
ap = subprocess.run(['patch', '-p1', '-s', '-i', os.path.join(d, 'patch.diff')], cwd=repo, capture_output=True, text=True)
assert ap.returncode == 0, ap.stdout + ap.stderr
warm = os.path.join(V, '.work', 'kcache')
if os.path.isdir(warm):
    shutil.copytree(warm, os.path.join(work, 'kcache'))
t0 = time.time()
p = subprocess.run(['./check', prop, 'quick'], cwd=V, env=dict(os.environ, VERIF_REPO=repo, VERIF_WORK=work), capture_output=True, text=True, timeout=5400)
shutil.rmtree(root, ignore_errors=True)
out = p.stdout
run = dict(cmd='(scratch copy of /repo with patch.diff applied) VERIF_REPO=<copy> VERIF_WORK=<scratch> ./check %s quick' % prop, exit=p.returncode, seconds=int(time.time() - t0),
           failed_obligations=re.findall(r'failed obligation: (\S+)', out)[:8], violation_lines=len([l for l in out.split('\n') if l.startswith('VIOLATION')]),
           undecided=[l[:300] for l in out.split('\n') if l.startswith('UNDECIDED')][:3])
m = dict(id=sid, property=prop, source='independent sub-agent given only the property text and a scratch worktree',
         what_and_what_it_needs=open(os.path.join(src, 'meta%s.txt' % n)).read().strip(),
         validated_by_me=dict(commands='in the scratch worktree: cargo test --offline (suite) with the change; cargo test --offline --test seed_demo clean and with the change', result=val[0]),
         check_runs=[run], detected=(p.returncode == 1), applies_to_current_head=True)
json.dump(m, open(os.path.join(d, 'meta.json'), 'w'), indent=1)
print(sid, 'exit', p.returncode, run['seconds'], 's', run['failed_obligations'][:3], run['undecided'][:1], flush=True)
