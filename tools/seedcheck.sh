#!/bin/bash
# usage: seedcheck.sh <seed-dir> <diff> <prop> [tier]  -- apply a seeded change to /repo, run the property's check, always restore /repo
DIFF=$1; PROP=$2; TIER=${3:-quick}
cd /repo || exit 9
if ! git diff --quiet; then echo "REPO DIRTY - refusing"; exit 9; fi
if ! git apply "$DIFF"; then echo "APPLY FAILED $DIFF"; exit 8; fi
cd /verif
START=$(date +%s)
./check $PROP $TIER > /tmp/seedcheck.out 2>&1; RC=$?
END=$(date +%s)
git -C /repo checkout -- .
echo "== $DIFF prop=$PROP rc=$RC secs=$((END-START))"
grep -E "^VIOLATION|^failed obligation|^UNDECIDED|^OK|^KNOWN" /tmp/seedcheck.out | cut -c1-260 | head -8
exit $RC
