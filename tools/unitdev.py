#!/usr/bin/env python3
"""development aid: generate one Verus unit from its sidecar and run verus on it with readable output.   tools/unitdev.py <unit> [verus args]"""
import os, subprocess, sys
V = os.path.dirname(os.path.dirname(os.path.abspath(__file__)))
sys.path.insert(0, V)
from vfw import gen
unit = sys.argv[1]
repo = os.environ.get('VERIF_REPO', '/repo')
g = gen.generate(os.path.join(V, 'contracts', unit + '.vspec'), repo, 'verus')
out = os.path.join(V, '.work', 'dev', unit + '.rs')
os.makedirs(os.path.dirname(out), exist_ok=True)
open(out, 'w').write(g.text())
print('generated', out, len(g.lines), 'lines;', len(g.rewrites), 'rewrites')
sys.exit(subprocess.run(['verus', out, '--multiple-errors', '20'] + sys.argv[2:], cwd=os.path.dirname(out)).returncode)
