#!/usr/bin/env python3
"""Re-run every seeded change of /verif/seeded against the current /repo HEAD: apply, run the property's quick check, restore.
Records `final_run` in each meta.json and regenerates the table in seeded/README.md.  /repo must be clean."""
import glob, json, os, re, subprocess, sys, time
V = os.path.dirname(os.path.dirname(os.path.abspath(__file__)))
only = sys.argv[1:]
if subprocess.run(['git', '-C', '/repo', 'diff', '--quiet']).returncode != 0:
    sys.exit('/repo is dirty')
head = subprocess.run(['git', '-C', '/repo', 'rev-parse', '--short', 'HEAD'], capture_output=True, text=True).stdout.strip()
for d in sorted(glob.glob(os.path.join(V, 'seeded', 'C*_*'))):
    sid = os.path.basename(d)
    if only and sid not in only:
        continue
    m = json.load(open(os.path.join(d, 'meta.json')))
    prop = m['property']
    ap = subprocess.run(['git', '-C', '/repo', 'apply', os.path.join(d, 'patch.diff')], capture_output=True, text=True)
    if ap.returncode != 0:
        m['final_run'] = dict(head=head, applied=False, note=ap.stderr[-300:])
    else:
        t0 = time.time()
        try:
            p = subprocess.run(['./check', prop, 'quick'], cwd=V, capture_output=True, text=True, timeout=3600)
            out, rc = p.stdout, p.returncode
        finally:
            subprocess.run(['git', '-C', '/repo', 'checkout', '--', '.'])
        m['final_run'] = dict(head=head, applied=True, exit=rc, seconds=int(time.time() - t0),
                              failed_obligations=re.findall(r'failed obligation: (\S+)', out)[:8],
                              violation_lines=[l for l in out.split('\n') if l.startswith('VIOLATION')][:8],
                              undecided=[l[:200] for l in out.split('\n') if l.startswith('UNDECIDED')][:3])
        m['detected'] = (rc == 1)
    json.dump(m, open(os.path.join(d, 'meta.json'), 'w'), indent=1)
    print(sid, m['final_run'].get('exit'), m['final_run'].get('seconds'), m['final_run'].get('failed_obligations', [])[:2], flush=True)
# README table
rows = []
for f in sorted(glob.glob(os.path.join(V, 'seeded', '*', 'meta.json'))):
    m = json.load(open(f))
    runs = m.get('check_runs', [])
    first = runs[0]['exit'] if runs else None
    fr = m.get('final_run', {})
    what = m['what_and_what_it_needs'].split('\n')[0][:120].replace('|', '/')
    obl = ', '.join(sorted(set(o.split('#')[0] for o in fr.get('failed_obligations', [])))[:3])
    inp = 'concrete input' if any('no-failing-input-found' not in l for l in fr.get('violation_lines', [])) else 'no-failing-input-found'
    rows.append('| %s | %s | %s | %s | %s | %s |' % (m['id'], what, {1: 'caught', 0: 'MISSED', 2: 'undecided'}.get(first, '-'),
                                                {1: 'caught', 0: 'MISSED', 2: 'undecided'}.get(fr.get('exit'), 'not run'), obl, inp if fr.get('exit') == 1 else ''))
p = os.path.join(V, 'seeded', 'README.md')
s = open(p).read()
a = s.index('| id |')
b = s.index('\nStrengthenings triggered')
hdr = '| id | change (first line of the author\'s note) | first run | at HEAD %s | failed obligations (unit/function/kind) | replay |\n|---|---|---|---|---|---|\n' % head
open(p, 'w').write(s[:a] + hdr + '\n'.join(rows) + '\n' + s[b:])
