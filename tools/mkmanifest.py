#!/usr/bin/env python3
"""Regenerate /verif/MANIFEST.json from vfw/props.py (claimed checks) and tools/not_applicable.json (the rest)."""
import json, os, sys
V = os.path.dirname(os.path.dirname(os.path.abspath(__file__)))
sys.path.insert(0, V)
from vfw import props
ids = [json.loads(l)['id'] for l in open(os.path.join(V, 'properties.jsonl'))]
na = json.load(open(os.path.join(V, 'tools', 'not_applicable.json')))
checks = []
for p in ids:
    if p not in props.PROPS:
        continue
    s = props.PROPS[p]
    checks.append(dict(
        property_id=p,
        quick_cmd='./check %s quick' % p,
        thorough_cmd='./check %s thorough' % p,
        evidence_file='/verif/evidence/%s.json' % p,
        replay_cmd_template='./check --replay {path}',
        engine='vfw',
        level_claimed=dict(category='proof', text=s['level_text'], design_ref=s.get('design_ref', 'DESIGN.md section 7, ' + p)),
        level_note=s['level_note'],
        technique=s.get('technique', 'contract-based deductive verification (Verus/Kani) of mechanically extracted functions'),
    ))
m = dict(
    version=1,
    setup_cmd='./setup.sh',
    hooks=dict(guard='none', enable='no hooks: every check extracts function text from /repo\'s working tree and builds the replay tool against it',
               baseline_off_cmd='cd /repo && cargo test --workspace --no-fail-fast --offline', source_commits=[], add_only=True),
    engines=[dict(name='vfw', path='/verif/check', serves_properties=[c['property_id'] for c in checks],
                  kind_free_text='extractor + contract injector + Verus/Kani runners + native replay; see DESIGN.md section 2')],
    checks=checks,
    not_applicable=[dict(property_id=p, reason=na[p]) for p in ids if p not in props.PROPS],
    notes='Contract-based deductive verification of the real code: functions are extracted mechanically from /repo on every run, '
          'contracts injected from /verif/contracts, discharged by Verus (unbounded) and Kani (complete where loop-free). '
          'exit 2 = UNDECIDED (lost anchor / tool limit), never a VIOLATION line.',
)
missing = [p for p in ids if p not in props.PROPS and p not in na]
assert not missing, missing
json.dump(m, open(os.path.join(V, 'MANIFEST.json'), 'w'), indent=1)
print('claimed:', [c['property_id'] for c in checks])
