//! Native replay of concrete inputs against the real avra-rs crate (built from /repo's working tree).
//!
//!   vreplay <jobdir>     runs every <jobdir>/<n>.job (n = 0,1,2,..) that has no <n>.out yet, in order,
//!                        writing <n>.out (one JSON object) after each; a panic is caught and reported;
//!                        a hard crash (stack overflow, abort) kills the process and the driver marks
//!                        the job that has a .started but no .out file as crashed and restarts.
//!
//! job file: first line = command, rest = payload
//!   build                       payload = assembler source           -> build_str
//!   buildfile <main> [inc..]    payload ignored                      -> build_file(main, {inc..})
//!   hex <code|eeprom> [prior [name]]   (name: file name to write to, default out.hex; prior: what the output path already holds: long (default) | none | empty | prefix | same) payload = hex string of image bytes  -> write_*_hex to a temp file, returns its text
//!   tree <main> [inc..]         payload = files, each introduced by a line `@@ <relative path>`; `@ROOT@` in a file stands for
//!                               the directory they are written to; `@@ <link> -> <target>` makes a symbolic link -> fresh directory, made the working directory,
//!                               build_file(main, {inc..}), directory removed
//!   buildcwd <dir>              payload = assembler source           -> build_str with <dir> as working directory
use std::{fs, panic, path::PathBuf};

use avra_lib::builder::{build_file, build_str, BuildResult};
use avra_lib::writer::{write_code_hex, write_eeprom_hex};

fn jstr(s: &str) -> String {
    let mut o = String::from("\"");
    for c in s.chars() {
        match c {
            '"' => o.push_str("\\\""),
            '\\' => o.push_str("\\\\"),
            '\n' => o.push_str("\\n"),
            '\r' => o.push_str("\\r"),
            '\t' => o.push_str("\\t"),
            c if (c as u32) < 0x20 => o.push_str(&format!("\\u{:04x}", c as u32)),
            c => o.push(c),
        }
    }
    o.push('"');
    o
}

fn hex(b: &[u8]) -> String {
    b.iter().map(|x| format!("{:02x}", x)).collect()
}

fn unhex(s: &str) -> Vec<u8> {
    let s: Vec<u8> = s.bytes().filter(|c| c.is_ascii_hexdigit()).collect();
    s.chunks(2)
        .map(|p| u8::from_str_radix(std::str::from_utf8(p).unwrap(), 16).unwrap())
        .collect()
}

fn br_json<E: std::fmt::Display>(r: Result<BuildResult, E>) -> String {
    match r {
        Ok(b) => format!(
            "{{\"status\":\"ok\",\"code\":\"{}\",\"eeprom\":\"{}\",\"flash_size\":{},\"eeprom_size\":{},\"ram_size\":{},\"ram_filling\":{},\"messages\":[{}]}}",
            hex(&b.code),
            hex(&b.eeprom),
            b.flash_size,
            b.eeprom_size,
            b.ram_size,
            b.ram_filling,
            b.messages.iter().map(|m| jstr(m)).collect::<Vec<_>>().join(",")
        ),
        Err(e) => format!("{{\"status\":\"err\",\"err\":{}}}", jstr(&format!("{}", e))),
    }
}

fn run_job(text: &str, scratch: &PathBuf) -> String {
    let (first, payload) = match text.find('\n') {
        Some(i) => (&text[..i], &text[i + 1..]),
        None => (text, ""),
    };
    let mut words = first.split_whitespace();
    match words.next() {
        Some("build") => br_json(build_str(payload)),
        Some("buildfile") => {
            let main = PathBuf::from(words.next().unwrap());
            let incs = words.map(PathBuf::from).collect();
            br_json(build_file(main, incs))
        }
        Some("tree") => {
            let main = PathBuf::from(words.next().unwrap());
            let root = scratch.join("tree");
            let _ = fs::remove_dir_all(&root);
            fs::create_dir_all(&root).unwrap();
            let root_s = root.to_string_lossy().to_string();
            let incs = words.map(|w| PathBuf::from(w.replace("@ROOT@", &root_s))).collect();
            let mut cur: Option<(PathBuf, String)> = None;
            let mut flush = |c: &mut Option<(PathBuf, String)>| {
                if let Some((p, t)) = c.take() {
                    if let Some(d) = p.parent() {
                        fs::create_dir_all(d).unwrap();
                    }
                    // `@@ <link> -> <target>`: a symbolic link (target as written, i.e. relative to the directory of the link)
                    let ps = p.to_string_lossy().to_string();
                    if let Some((link, target)) = ps.split_once(" -> ") {
                        std::os::unix::fs::symlink(target, link).unwrap();
                    } else {
                        fs::write(&p, t.replace("@ROOT@", &root_s)).unwrap();
                    }
                }
            };
            for l in payload.split_inclusive('\n') {
                if let Some(name) = l.strip_prefix("@@ ") {
                    flush(&mut cur);
                    cur = Some((root.join(name.trim()), String::new()));
                } else if let Some((_, t)) = cur.as_mut() {
                    t.push_str(l);
                }
            }
            flush(&mut cur);
            let old = std::env::current_dir().unwrap();
            std::env::set_current_dir(&root).unwrap();
            let r = panic::catch_unwind(|| br_json(build_file(main, incs)));
            std::env::set_current_dir(&old).unwrap();
            let _ = fs::remove_dir_all(&root);
            match r {
                Ok(s) => s.replace(&root_s, "@ROOT@"),
                Err(e) => panic::resume_unwind(e),
            }
        }
        Some("buildcwd") => {
            let dir = PathBuf::from(words.next().unwrap());
            let old = std::env::current_dir().unwrap();
            std::env::set_current_dir(&dir).unwrap();
            let r = panic::catch_unwind(|| br_json(build_str(payload)));
            std::env::set_current_dir(&old).unwrap();
            match r {
                Ok(s) => s,
                Err(e) => panic::resume_unwind(e),
            }
        }
        Some("hex") => {
            let which = words.next().unwrap_or("code");
            let bytes = unhex(payload);
            let br = BuildResult {
                code: if which == "code" { bytes.clone() } else { vec![] },
                eeprom: if which == "eeprom" { bytes.clone() } else { vec![] },
                flash_size: 0,
                eeprom_size: 0,
                ram_size: 0,
                ram_filling: 0,
                messages: vec![],
            };
            let prior = words.next().unwrap_or("long").to_string();
            let out = scratch.join(words.next().unwrap_or("out.hex"));
            let _ = fs::remove_file(&out);
            // what the output path holds already: by default a (longer) file, as after an earlier, larger build -- the writer has to replace
            // it, not overwrite its head; `none`, `empty`, `prefix` (the first two lines of this very output), `same` (this very output)
            match prior.as_str() {
                "none" => {}
                "empty" => fs::write(&out, "").unwrap(),
                p @ ("prefix" | "same") => {
                    let first = scratch.join("first.hex");
                    let _ = fs::remove_file(&first);
                    let _ = if which == "code" { write_code_hex(first.clone(), &br) } else { write_eeprom_hex(first.clone(), &br) };
                    let text = fs::read_to_string(&first).unwrap_or_default();
                    if p == "same" {
                        fs::write(&out, &text).unwrap();
                    } else {
                        let head: Vec<&str> = text.split_inclusive('\n').take(2).collect();
                        fs::write(&out, head.concat()).unwrap();
                    }
                }
                _ => fs::write(&out, ":10000000".repeat(40_000)).unwrap(),
            }
            let r = if which == "code" {
                write_code_hex(out.clone(), &br)
            } else {
                write_eeprom_hex(out.clone(), &br)
            };
            match r {
                Ok(()) => {
                    let data = fs::read(&out).unwrap_or_default();
                    format!("{{\"status\":\"ok\",\"file\":{}}}", jstr(&String::from_utf8_lossy(&data)))
                }
                Err(e) => format!("{{\"status\":\"err\",\"err\":{}}}", jstr(&format!("{}", e))),
            }
        }
        other => format!("{{\"status\":\"badjob\",\"err\":{}}}", jstr(&format!("{:?}", other))),
    }
}

fn main() {
    let dir = PathBuf::from(std::env::args().nth(1).expect("jobdir"));
    panic::set_hook(Box::new(|_| {}));
    let mut n = 0usize;
    loop {
        let job = dir.join(format!("{}.job", n));
        if !job.exists() {
            break;
        }
        let out = dir.join(format!("{}.out", n));
        if !out.exists() {
            let text = fs::read_to_string(&job).unwrap();
            fs::write(dir.join(format!("{}.started", n)), b"").unwrap();
            let d = dir.clone();
            let res = panic::catch_unwind(move || run_job(&text, &d));
            let s = match res {
                Ok(s) => s,
                Err(e) => {
                    let msg = if let Some(s) = e.downcast_ref::<String>() {
                        s.clone()
                    } else if let Some(s) = e.downcast_ref::<&str>() {
                        s.to_string()
                    } else {
                        "panic".to_string()
                    };
                    format!("{{\"status\":\"panic\",\"err\":{}}}", jstr(&msg))
                }
            };
            fs::write(&out, s).unwrap();
        }
        n += 1;
    }
}
