//! Native replay of concrete inputs against the real avra-rs crate (built from /repo's working tree).
//!
//!   vreplay <jobdir>     runs every <jobdir>/<n>.job (n = 0,1,2,..) that has no <n>.out yet, in order,
//!                        writing <n>.out (one JSON object) after each; a panic is caught and reported;
//!                        a hard crash (stack overflow, abort) kills the process and the driver marks
//!                        the job that has a .started but no .out file as crashed and restarts.
//!
//! job file: first line = command, rest = payload
//!   build                       payload = assembler source           -> build_str
//!   buildfile <main> [inc..]    payload ignored                      -> build_file(main, {inc..})
//!   hex <code|eeprom>           payload = hex string of image bytes  -> write_*_hex to a temp file, returns its text
use std::{fs, panic, path::PathBuf};

use avra_lib::builder::{build_file, build_str, BuildResult};
use avra_lib::writer::{write_code_hex, write_eeprom_hex};

fn jstr(s: &str) -> String {
    let mut o = String::from("\"");
    for c in s.chars() {
        match c {
            '"' => o.push_str("\\\""),
            '\\' => o.push_str("\\\\"),
            '\n' => o.push_str("\\n"),
            '\r' => o.push_str("\\r"),
            '\t' => o.push_str("\\t"),
            c if (c as u32) < 0x20 => o.push_str(&format!("\\u{:04x}", c as u32)),
            c => o.push(c),
        }
    }
    o.push('"');
    o
}

fn hex(b: &[u8]) -> String {
    b.iter().map(|x| format!("{:02x}", x)).collect()
}

fn unhex(s: &str) -> Vec<u8> {
    let s: Vec<u8> = s.bytes().filter(|c| c.is_ascii_hexdigit()).collect();
    s.chunks(2)
        .map(|p| u8::from_str_radix(std::str::from_utf8(p).unwrap(), 16).unwrap())
        .collect()
}

fn br_json<E: std::fmt::Display>(r: Result<BuildResult, E>) -> String {
    match r {
        Ok(b) => format!(
            "{{\"status\":\"ok\",\"code\":\"{}\",\"eeprom\":\"{}\",\"flash_size\":{},\"eeprom_size\":{},\"ram_size\":{},\"ram_filling\":{},\"messages\":[{}]}}",
            hex(&b.code),
            hex(&b.eeprom),
            b.flash_size,
            b.eeprom_size,
            b.ram_size,
            b.ram_filling,
            b.messages.iter().map(|m| jstr(m)).collect::<Vec<_>>().join(",")
        ),
        Err(e) => format!("{{\"status\":\"err\",\"err\":{}}}", jstr(&format!("{}", e))),
    }
}

fn run_job(text: &str, scratch: &PathBuf) -> String {
    let (first, payload) = match text.find('\n') {
        Some(i) => (&text[..i], &text[i + 1..]),
        None => (text, ""),
    };
    let mut words = first.split_whitespace();
    match words.next() {
        Some("build") => br_json(build_str(payload)),
        Some("buildfile") => {
            let main = PathBuf::from(words.next().unwrap());
            let incs = words.map(PathBuf::from).collect();
            br_json(build_file(main, incs))
        }
        Some("hex") => {
            let which = words.next().unwrap_or("code");
            let bytes = unhex(payload);
            let br = BuildResult {
                code: if which == "code" { bytes.clone() } else { vec![] },
                eeprom: if which == "eeprom" { bytes.clone() } else { vec![] },
                flash_size: 0,
                eeprom_size: 0,
                ram_size: 0,
                ram_filling: 0,
                messages: vec![],
            };
            let out = scratch.join("out.hex");
            let _ = fs::remove_file(&out);
            let r = if which == "code" {
                write_code_hex(out.clone(), &br)
            } else {
                write_eeprom_hex(out.clone(), &br)
            };
            match r {
                Ok(()) => {
                    let data = fs::read(&out).unwrap_or_default();
                    format!("{{\"status\":\"ok\",\"file\":{}}}", jstr(&String::from_utf8_lossy(&data)))
                }
                Err(e) => format!("{{\"status\":\"err\",\"err\":{}}}", jstr(&format!("{}", e))),
            }
        }
        other => format!("{{\"status\":\"badjob\",\"err\":{}}}", jstr(&format!("{:?}", other))),
    }
}

fn main() {
    let dir = PathBuf::from(std::env::args().nth(1).expect("jobdir"));
    panic::set_hook(Box::new(|_| {}));
    let mut n = 0usize;
    loop {
        let job = dir.join(format!("{}.job", n));
        if !job.exists() {
            break;
        }
        let out = dir.join(format!("{}.out", n));
        if !out.exists() {
            let text = fs::read_to_string(&job).unwrap();
            fs::write(dir.join(format!("{}.started", n)), b"").unwrap();
            let d = dir.clone();
            let res = panic::catch_unwind(move || run_job(&text, &d));
            let s = match res {
                Ok(s) => s,
                Err(e) => {
                    let msg = if let Some(s) = e.downcast_ref::<String>() {
                        s.clone()
                    } else if let Some(s) = e.downcast_ref::<&str>() {
                        s.to_string()
                    } else {
                        "panic".to_string()
                    };
                    format!("{{\"status\":\"panic\",\"err\":{}}}", jstr(&msg))
                }
            };
            fs::write(&out, s).unwrap();
        }
        n += 1;
    }
}
